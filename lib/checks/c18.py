"""C18 — TLS acceptors bound handshake time and concurrency and carry data intact.
Spec: spec/tls/TlsAccept.tla (limit, thread-local counter, parked waker, calls with handshake scripts,
virtual clock in ticks).  Both directions are bound:
  spec -> impl  every edge of the TLC state graph (init-rooted path cover) is replayed by `vtls accept` on
                the real rustls 0.23 and OpenSSL acceptor services (paused Tokio clock, in-memory duplex
                behind a gate, scripted real TLS clients / garbage / disconnect) and compared with the
                edge labels;
  impl -> spec  every recorded run (schedule replays and seeded random walks with up to 5 concurrent
                calls, timeouts of 2..5 ticks) is validated by TLC against TlsAcceptTrace.tla (strict;
                the C18 predicates are evaluated on the recorded states as well).
The data-intact clause is differential: the driver compares random payloads byte for byte on every
stream it gets from an ok resolution that it echoes on and records `echo` observations in the same trace."""
import json
import os
from collections import deque

import vlib

MOD = "tls/TlsAccept.tla"
TMOD = "tls/TlsAcceptTrace.tla"
TCFG = "Trace_C18.cfg"
NEGS = {"NEG_C18_TimeoutOnlyAfterHandshakeError.cfg": ["C18_ResolvesBy", "C18_Steps"],
        "NEG_C18_GuardReleasedAtCall.cfg": ["C18_GuardHeldWhileHandshaking"],
        "NEG_C18_GateOffByOne.cfg": ["C18_Steps"],
        "NEG_C18_NoWakeOnRelease.cfg": ["C18_WakeOnRelease", "C18_Steps"],
        "NEG_C18_TimeoutTwice.cfg": ["C18_ResolvesBy", "C18_Steps"]}
ACCS = ("rustls", "openssl")
TIMEOUTS_MS = (100, 1500, 5000)


def signature(rec):
    return "c18:%s:%s" % (rec.get("ev"), str(rec.get("res", rec.get("ok", "")))[:12])


def tick_for(rng, t):
    """handshake timeout from {0.1 s, 1.5 s, 5 s} (rounded so that it is a whole number of ms per tick)"""
    ms = rng.choice(TIMEOUTS_MS)
    tick = -(-ms // t)
    if tick * t > 5000:
        tick = 5000 // t
    return tick


def nontrivial(ops):
    gate = any(a["op"] == "ready" and a["res"] == "pending" for a in ops) and any(a.get("woken", 0) != 0 for a in ops)
    timed = any(a["op"] == "poll" and a["res"] in ("ok", "tlserr", "timeout") and a["el"] > 0 for a in ops)
    return gate or timed


def acc_of(run):
    return run[0].get("acc", "?")


def path_cover_long(g, rng, max_len=60, detour=3):
    """Init-rooted paths covering every edge, like vlib.path_cover, but a path that runs out of uncovered
    successors takes a short detour (<= `detour` covered edges) to the nearest state that still has one,
    instead of ending: fewer restarts (each restart is a fresh thread, runtime and handshakes)."""
    parent = {}
    order = []
    dq = deque()
    for i in g.inits:
        parent[i] = None
        dq.append(i)
    while dq:
        n = dq.popleft()
        order.append(n)
        for ei in g.succ.get(n, []):
            t = g.edges[ei][2]
            if t not in parent:
                parent[t] = ei
                dq.append(t)
    def prefix(node):
        p = []
        while parent[node] is not None:
            ei = parent[node]
            p.append(ei)
            node = g.edges[ei][0]
        p.reverse()
        return p
    covered = [False] * len(g.edges)
    nunc = {n: len(g.succ.get(n, [])) for n in order}     # uncovered out-edges per node
    def take(ei):
        if not covered[ei]:
            covered[ei] = True
            nunc[g.edges[ei][0]] -= 1
    def find_detour(node):
        # shortest edge sequence (<= detour hops) from node to a node with an uncovered out-edge
        seen = {node: None}
        q = deque([(node, 0)])
        while q:
            n, d = q.popleft()
            if d >= detour:
                continue
            succ = list(g.succ.get(n, []))
            rng.shuffle(succ)
            for ei in succ:
                t = g.edges[ei][2]
                if t in seen:
                    continue
                seen[t] = ei
                if nunc.get(t, 0) > 0:
                    p = []
                    while seen[t] is not None:
                        p.append(seen[t])
                        t = g.edges[seen[t]][0]
                    p.reverse()
                    return p
                q.append((t, d + 1))
        return None
    paths = []
    reachable = [ei for n in order for ei in g.succ.get(n, [])]
    for ei in reachable:
        if covered[ei]:
            continue
        p = prefix(g.edges[ei][0]) + [ei]
        for x in p:
            take(x)
        node = g.edges[ei][2]
        while len(p) < max_len:
            nxt = [x for x in g.succ.get(node, []) if not covered[x]]
            if nxt:
                x = rng.choice(nxt)
                take(x)
                p.append(x)
                node = g.edges[x][2]
                continue
            d = find_detour(node)
            if not d or len(p) + len(d) >= max_len:
                break
            p.extend(d)
            node = g.edges[d[-1]][2]
        paths.append(p)
    return paths, sum(covered), len(reachable)


def replay_edges(ctx, cfg, tag, nrand, rand_len):
    """TLC exhaustive on `cfg` with the edge dump -> path cover -> schedules for both acceptors -> driver ->
    comparison with the edge labels + TLC validation of the recorded runs."""
    dump = os.path.join(ctx.workdir, "%s-mc.out" % tag)
    res = ctx.model_check(MOD, cfg, workers=1, keep=dump, timeout=1500)
    vlib.require_ok(res, cfg)
    ctx.add_tlc(cfg, res, "exhaustive, design variants, edge dump")
    g = vlib.graph_from_tlc(res.stdout)
    del res.stdout
    # vacuity guard: the graph must contain every kind of step the predicates talk about
    kinds = {(a["op"], a["res"]) for (_, a, _) in g.edges} | {("wake", "") for (_, a, _) in g.edges if a["woken"]}
    need = {("ready", "ready"), ("ready", "pending"), ("poll", "ok"), ("poll", "tlserr"), ("poll", "timeout"),
            ("drop", ""), ("advance", ""), ("call", ""), ("wake", "")}
    if need - kinds:
        raise vlib.ToolError("%s: the state graph lacks steps %s" % (cfg, sorted(need - kinds)))
    paths, covered, total = path_cover_long(g, ctx.rng)
    jobs = []
    for k in range(nrand):     # seeded random walks, judged by TLC only
        t = ctx.rng.randint(2, 5)
        jobs.append({"acc": ACCS[k % 2], "limit": ctx.rng.randint(1, 3), "T": t, "tick_ms": tick_for(ctx.rng, t),
                     "seed": ctx.rng.getrandbits(40), "random": rand_len, "maxcalls": 5, "exec": (k // 2) % 2 == 1})
    npaths = 0
    for p in paths:
        acts = [g.edges[ei][1] for ei in p]
        view = json.loads(g.edges[p[0]][0])
        npaths += 1
        # hand mode (polled at every step) on both acceptors; executor mode (fresh waker per poll, polled
        # only when the current waker has fired) on both acceptors (thorough) / alternating (quick)
        for acc in ACCS:
            jobs.append({"acc": acc, "limit": view[0], "T": view[1], "tick_ms": tick_for(ctx.rng, view[1]),
                         "seed": ctx.rng.getrandbits(40), "exec": False, "ops": acts})
        for acc in ((ACCS[npaths % 2],) if ctx.quick else ACCS):
            jobs.append({"acc": acc, "limit": view[0], "T": view[1], "tick_ms": tick_for(ctx.rng, view[1]),
                         "seed": ctx.rng.getrandbits(40), "exec": True, "ops": acts})
        # "mixed": a rustls AND an OpenSSL acceptor service on the same thread, operations alternating between them -
        # the limit is per thread, so the specification (one counter) must explain this run as well
        if not ctx.quick or npaths % 2 == 0:
            jobs.append({"acc": "mixed", "limit": view[0], "T": view[1], "tick_ms": tick_for(ctx.rng, view[1]),
                         "seed": ctx.rng.getrandbits(40), "exec": False, "ops": acts})
    del g
    sfile = os.path.join(ctx.workdir, "%s-schedules.ndjson" % tag)
    tfile = os.path.join(ctx.workdir, "%s-trace.ndjson" % tag)
    vlib.write_ndjson(sfile, jobs)
    r = vlib.run_harness("vtls", ["accept", "--schedules", sfile, "--trace", tfile], timeout=3000)
    summ = json.loads(r.stdout.strip().splitlines()[-1])
    runs = vlib.split_runs(vlib.read_ndjson(tfile))
    if len(runs) != len(jobs):
        raise vlib.ToolError("driver recorded %d runs for %d schedules" % (len(runs), len(jobs)))
    flagged = sorted({m["run"] for m in summ["first_mismatches"]})
    # TLC judges the recorded runs: flagged ones first, then as many of the others as the budget allows
    budget = 500000 if ctx.quick else 6000000
    order = list(range(len(runs)))
    ctx.rng.shuffle(order)
    order.sort(key=lambda i: 0 if i < nrand else 1)       # the random walks are always judged
    pick, ev = [], 0
    for i in order:
        if i in flagged:
            continue
        if ev + len(runs[i]) > budget:
            continue
        pick.append(i)
        ev += len(runs[i])
    to_check = flagged[:10] + pick
    rr = [runs[i] for i in to_check]
    accepted, rejects = vlib.validate_runs(TMOD, TCFG, rr, ctx.workdir, tag=tag, timeout=1500)
    ctx.cov["traces_validated_against_impl"] += accepted
    rejected_idx = set()
    for (ri, pos, pred) in rejects:
        i = to_check[ri]
        rejected_idx.add(i)
        rec = rr[ri][min(pos, len(rr[ri]) - 1)]
        ctx.violation(signature(rec),
                      "%s acceptor: TLC rejects the recorded run at record %d: observed %s%s" % (
                          acc_of(rr[ri]), pos, json.dumps(rec), (", predicate " + pred) if pred else ""),
                      {"mode": "accept", "schedule": jobs[i], "trace": rr[ri]})
    for m in summ["first_mismatches"]:
        if m["run"] not in flagged[:10]:
            ctx.violation(signature(m["observed"]), "%s acceptor: observed %s, the spec's result is %s" % (
                jobs[m["run"]]["acc"], json.dumps(m["observed"]), json.dumps(m["expected"])),
                {"mode": "accept", "schedule": jobs[m["run"]]})
    if summ["mismatches"] and not rejects:
        raise vlib.ToolError("driver flagged %d runs but TLC accepted them: oracle disagreement" % summ["mismatches"])
    # ---- evidence
    cov = ctx.cov
    sched_jobs = jobs[nrand:]
    cov["evaluations"] += len(jobs)
    cov["distinct_nontrivial"] += sum(1 for j in sched_jobs if nontrivial(j["ops"]))
    for k in ("model_edges", "model_edges_replayed_on_impl", "model_paths", "impl_steps", "driver_mismatches",
              "random_runs", "trace_records_judged_by_tlc"):
        cov.setdefault(k, 0)
    cov["model_edges"] += total
    cov["model_edges_replayed_on_impl"] += covered
    cov["model_paths"] += npaths
    cov["impl_steps"] += summ["steps"]
    cov["driver_mismatches"] += summ["mismatches"]
    cov["random_runs"] += nrand
    cov["trace_records_judged_by_tlc"] += sum(len(x) for k, x in enumerate(rr) if to_check[k] not in rejected_idx)
    per = cov.setdefault("per_acceptor", {a: {"runs_replayed": 0, "runs_accepted_by_tlc": 0,
                                              "executor_mode_runs_accepted_by_tlc": 0} for a in ACCS + ("mixed",)})
    for i, run in enumerate(runs):
        per[acc_of(run)]["runs_replayed"] += 1
    for k, i in enumerate(to_check):
        if i not in rejected_idx:
            per[acc_of(runs[i])]["runs_accepted_by_tlc"] += 1
            if runs[i][0].get("mode") == "exec":
                per[acc_of(runs[i])]["executor_mode_runs_accepted_by_tlc"] += 1
    st = cov.setdefault("driver_stats", {})
    for k, v in summ.get("stats", {}).items():
        st[k] = st.get(k, 0) + v
    cov["exhaustive"] = True
    if len(cov["samples"]) < 4:
        def score(i):
            ops = jobs[i]["ops"]
            got = {(a["op"], a["res"]) for a in ops} | {("wake", "") for a in ops if a["woken"]}
            return (len(got & {("ready", "pending"), ("wake", ""), ("poll", "ok"), ("poll", "tlserr"), ("poll", "timeout")}),
                    -len(ops))
        best = max(range(nrand, len(jobs)), key=score)
        cov["samples"].append({"spec_cfg": cfg, "schedule": jobs[best], "observed_trace": runs[best]})
        if nrand:
            cov["samples"].append({"random_walk": jobs[0], "observed_trace": runs[0][:16]})
    return summ


def data_backpressure(ctx, rounds):
    """Data-intact clause under transport back-pressure (differential): accepted rustls / OpenSSL streams over in-memory
    transports of 1 MiB, 16 KiB, 4 KiB and 1 KiB; write_all + flush of 0 .. 70 000 bytes on one side while the other side
    reads; both directions; nothing is written after the flush."""
    tfile = os.path.join(ctx.workdir, "c18-data.ndjson")
    r = vlib.run_harness("vtls", ["data", "--trace", tfile, "--seed", ctx.seed, "--rounds", rounds], timeout=900)
    summ = json.loads(r.stdout.strip().splitlines()[-1])
    ctx.cov["data_intact_backpressure"] = {"transfers": summ["runs"], "bytes": summ["bytes"], "failures": summ["mismatches"],
                                           "transport_buffers": [1 << 20, 16384, 4096, 1024]}
    ctx.cov["evaluations"] += summ["runs"]
    for m in summ["first_mismatches"][:3]:
        ctx.violation("c18:data:%s" % m.get("dir"), "%s acceptor, transport buffer %s bytes: %s bytes %s: %s" % (
            m.get("acc"), m.get("buf"), m.get("n"), m.get("dir"), m.get("detail")),
            {"mode": "data", "seed": ctx.seed, "rounds": rounds, "observed": m})


def run(ctx):
    vlib.cargo_build(["vtls"])
    for m in (MOD, TMOD):
        vlib.sany(m)
    # property predicates on wider constants than the replayed graph (no edge dump)
    wides = ["MC_C18_wide_quick.cfg"] if ctx.quick else ["MC_C18_wide.cfg", "MC_C18_wide5.cfg"]
    for w in wides:
        res = ctx.model_check(MOD, w, workers=4, timeout=1500, xmx="8g")
        vlib.require_ok(res, w)
        ctx.add_tlc(w, res, "exhaustive, design variants, predicates only")
    for ncfg, exp in NEGS.items():
        ctx.expect_neg(MOD, ncfg, exp)
    if ctx.quick:
        replay_edges(ctx, "MC_C18_quick.cfg", "c18q", nrand=300, rand_len=40)
    else:
        replay_edges(ctx, "MC_C18_thorough.cfg", "c18t", nrand=3000, rand_len=60)
        replay_edges(ctx, "MC_C18_thorough_t3.cfg", "c18t3", nrand=0, rand_len=0)
    data_backpressure(ctx, 3 if ctx.quick else 40)
    st = ctx.cov.get("driver_stats", {})
    for a in ACCS:      # every kind of observation must have been made on each acceptor
        seen = {k: st.get(k % a, 0) for k in ("res:%s:ok", "res:%s:tlserr", "res:%s:timeout", "ready:%s:ready",
                                               "ready:%s:pending", "exec:res:%s:ok", "exec:res:%s:tlserr",
                                               "exec:res:%s:timeout", "exec:timeout_after_repoll:%s")}
        ctx.cov["per_acceptor"][a]["observed"] = {k.replace(":%s", ""): v for k, v in seen.items()}
        if not ctx.violations and min(seen.values()) == 0:
            raise vlib.ToolError("%s acceptor: some kind of observation was never made: %s" % (a, seen))
    if st.get("echo_failed", 0) and not ctx.violations:
        raise vlib.ToolError("payload comparison failed %d times but no run was rejected" % st["echo_failed"])
    ctx.cov["data_intact_clause"] = {
        "decided_by": "differential (driver compares payloads byte for byte; not model-decided)",
        "streams_echoed_ok": st.get("echo_ok", 0), "streams_echo_failed": st.get("echo_failed", 0),
        "payload_bytes_compared": st.get("echo_bytes", 0),
        "payload_sizes": {k.split(":", 1)[1]: v for k, v in st.items() if k.startswith("echo_size:")}}
    ctx.cov["rule"] = (
        "schedules = init-rooted paths covering every edge of the TLC state graph of TlsAccept (limits 1..3, "
        "calls with scripts complete@t / fail@t / stall, poll_ready with 2 wakers, poll / drop of call futures, "
        "clock ticks), each replayed on the rustls 0.23 and on the OpenSSL acceptor service in hand-polling mode and in "
        "wake-driven executor mode (fresh waker per poll; quick: executor mode on one acceptor per path), plus seeded random "
        "walks (<= 5 concurrent calls, timeout 2..5 ticks) judged by TLC only; distinct_nontrivial = (path, "
        "acceptor, mode) triples, distinct by construction, in which a not-ready answer is followed by a release that "
        "must wake the parked waker, or a call resolves (ok / tls error / timeout) after virtual time has passed")
    ctx.cov["constants"] = {"handshake_timeouts_ms": list(TIMEOUTS_MS), "limits": [1, 2, 3],
                            "clock": "Tokio paused clock; resolution instants compared at 1 ms granularity"}
    ctx.assumptions += [
        "virtual time: Tokio's paused clock and timer wheel are trusted (1 ms granularity)",
        "the number of handshakes in progress is measured as the number of live call futures held by the driver",
        "counting wakers observe wake-ups; extra wake-ups are allowed",
        "executor-mode runs: every poll of a call future uses a fresh waker and happens only after the most recent "
        "waker fired (or once, seeded, without a wake-up: the future moved to another task); a deadline that does "
        "not wake the current waker shows as a call still pending when the spec resolves it",
        "a handshake 'completes at t' = the last client bytes it needs become readable at t (zero-latency "
        "in-memory transport); at exactly the timeout the handshake wins because AcceptFut polls it first",
        "payload equality is a differential check by the driver, recorded as echo observations",
        "certificate validation and the TLS state machines are the libraries' (rustls/aws-lc-rs, OpenSSL)"]


def replay(ctx, path):
    vlib.cargo_build(["vtls"])
    rp = json.load(open(path))["replay"]
    if rp.get("mode") == "data":
        ctx.seed = rp["seed"]
        data_backpressure(ctx, rp["rounds"])
        ctx.cov.update({"distinct_nontrivial": 1, "states": 1, "transitions": 1, "samples": [rp["observed"]]})
        return
    vlib.replay_flow(ctx, path, harness="vtls", signature=signature, tmodule_by_mode={"accept": (TMOD, TCFG)})
