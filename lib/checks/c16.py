"""C16 — local-channel: FIFO, exactly once, clean closure, no lost wake-up.
Spec: spec/local/LocalChannel.tla.  Binding: every edge of the bounded model replayed on the real
Sender/Receiver (expected results from the edge labels), the recorded traces validated by TLC against
LocalChannelTrace (strict), plus seeded random longer sequences judged by TLC alone."""
import vlib

MOD = "local/LocalChannel.tla"
TMOD = "local/LocalChannelTrace.tla"
NEGS = {"NEG_C16_CloseEndsStream.cfg": ["C16_Steps", "C16_ParkedIsWoken"],
        "NEG_C16_CloseWakes.cfg": ["C16_ParkedIsWoken"],
        "NEG_C16_SendWakes.cfg": ["C16_ParkedIsWoken"],
        "NEG_C16_LastDropWakes.cfg": ["C16_ParkedIsWoken"],
        "NEG_C16_PollFifo.cfg": ["C16_Fifo", "C16_Steps"]}


def signature(rec):
    return "chan:%s:%s" % (rec.get("ev"), str(rec.get("res", ""))[:12])


def run(ctx):
    vlib.cargo_build(["vlocal"])
    nrand = 200 if ctx.quick else 3000
    out = vlib.edge_replay_flow(
        ctx, module=MOD, cfg="MC_C16_quick.cfg" if ctx.quick else "MC_C16_thorough.cfg", negs=NEGS,
        tmodule=TMOD, tcfg="Trace_C16.cfg", harness="vlocal", mode="chan", signature=signature,
        extra_args=["--random", nrand, "--len", 40 if ctx.quick else 120, "--seed", ctx.seed], extra_runs=nrand,
        nontrivial=lambda s: any(a["op"] == "poll" and a["res"] == "pending" for a in s) and any(a["woken"] != 0 for a in s))
    ctx.cov["rule"] = ("schedules = init-rooted paths covering every edge of the TLC state graph of LocalChannel "
                       "(each edge = one channel operation with the spec's result); non-trivial = the receiver parks "
                       "and a later operation must wake it; plus %d seeded random sequences judged by TLC only" % nrand)
    ctx.cov["samples"].append({"random_trace": out["rand_runs"][0][:12]})
    ctx.assumptions += ["counting wakers observe wake-ups; extra wake-ups are allowed by the spec",
                        "messages are 1,2,3,.. in send order, so FIFO/exactly-once is visible in values"]


def replay(ctx, path):
    vlib.cargo_build(["vlocal"])
    vlib.replay_flow(ctx, path, harness="vlocal", tmodule_by_mode={"chan": (TMOD, "Trace_C16.cfg")}, signature=signature)
