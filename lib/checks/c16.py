"""C16 — local-channel: FIFO, exactly once, clean closure, no lost wake-up.
Spec: spec/local/LocalChannel.tla.  Binding: every edge of the bounded model replayed on the real
Sender/Receiver (expected results from the edge labels), the recorded traces validated by TLC against
LocalChannelTrace (strict), plus seeded random longer sequences judged by TLC alone."""
import json
import os

import vlib

MOD = "local/LocalChannel.tla"
TMOD = "local/LocalChannelTrace.tla"
NEGS = {"CloseEndsStream": ["C16_Steps", "action_property", "C16_ParkedIsWoken"], "CloseWakes": ["C16_ParkedIsWoken"],
        "SendWakes": ["C16_ParkedIsWoken"], "LastDropWakes": ["C16_ParkedIsWoken"],
        "PollFifo": ["C16_Fifo", "C16_Steps", "action_property"]}


def signature(rec):
    """Classifies a failing observation for known-findings matching."""
    ev = rec.get("ev")
    return "chan:%s:%s" % (ev, rec.get("res", ""))


def run(ctx):
    vlib.cargo_build(["vlocal"])
    cfg = "MC_C16_quick.cfg" if ctx.quick else "MC_C16_thorough.cfg"
    dump = os.path.join(ctx.workdir, "mc.out")
    res = ctx.model_check(MOD, cfg, workers=1, keep=dump)
    vlib.require_ok(res, cfg)
    ctx.add_tlc(cfg, res, "exhaustive, design variants, edge dump")
    for v, exp in NEGS.items():
        ctx.expect_neg(MOD, "NEG_C16_%s.cfg" % v, exp)
    g = vlib.graph_from_tlc(res.stdout)
    paths, covered, total = vlib.path_cover(g, ctx.rng)
    scheds = vlib.paths_to_schedules(g, paths)
    sfile = os.path.join(ctx.workdir, "schedules.ndjson")
    vlib.write_ndjson(sfile, scheds)
    tfile = os.path.join(ctx.workdir, "trace.ndjson")
    nrand = 200 if ctx.quick else 3000
    r = vlib.run_harness("vlocal", ["chan", "--schedules", sfile, "--trace", tfile,
                                    "--random", nrand, "--len", 40 if ctx.quick else 120, "--seed", ctx.seed])
    summ = json.loads(r.stdout.strip().splitlines()[-1])
    runs = vlib.split_runs(vlib.read_ndjson(tfile))
    rand_runs, sched_runs = runs[:nrand], runs[nrand:]
    assert len(sched_runs) == len(scheds)
    # runs the driver flagged (observed result differs from the edge label) are always given to TLC;
    # of the others a seeded sample up to an event budget, plus all random runs
    flagged = sorted({m["run"] for m in summ["first_mismatches"]})
    budget = 15000 if ctx.quick else 150000
    pick, ev = [], 0
    order = list(range(len(sched_runs)))
    ctx.rng.shuffle(order)
    for i in order:
        if i in flagged:
            continue
        if ev + len(sched_runs[i]) > budget:
            break
        pick.append(i)
        ev += len(sched_runs[i])
    to_check = [("sched", i) for i in flagged[:10]] + [("sched", i) for i in pick] + \
               [("rand", i) for i in range(len(rand_runs))]
    rr = [sched_runs[i] if k == "sched" else rand_runs[i] for k, i in to_check]
    accepted, rejects = vlib.validate_runs(TMOD, "Trace_C16.cfg", rr, ctx.workdir, tag="c16")
    ctx.cov["traces_validated_against_impl"] = accepted
    for (ri, pos, pred) in rejects:
        kind, idx = to_check[ri]
        rec = rr[ri][min(pos, len(rr[ri]) - 1)]
        ctx.violation(signature(rec),
                      "TLC rejects the recorded trace at record %d (%s): observed %s%s" % (
                          pos, kind, json.dumps(rec), (", predicate " + pred) if pred else ""),
                      {"kind": kind, "schedule": scheds[idx] if kind == "sched" else None, "trace": rr[ri]})
    # a flagged run that TLC was not asked about (more than 10) is still a disagreement with the spec's
    # only allowed result (API-level spec): report from the driver's comparison
    for m in summ["first_mismatches"]:
        if m["run"] not in flagged[:10]:
            ctx.violation(signature(m["observed"]), "observed %s, spec allows %s" % (
                json.dumps(m["observed"]), json.dumps(m["expected"])), {"schedule": scheds[m["run"]]})
    if summ["mismatches"] and not rejects and not ctx.known_hits:
        raise vlib.ToolError("driver flagged %d runs but TLC accepted them: oracle disagreement" % summ["mismatches"])
    nontrivial = sum(1 for s in scheds if any(a["op"] == "poll" and a["res"] == "pending" for a in s)
                     and any(a["woken"] != 0 for a in s))
    ctx.cov.update({
        "evaluations": len(scheds) + len(rand_runs),
        "distinct_nontrivial": nontrivial,
        "rule": "schedules = init-rooted paths covering every edge of the TLC state graph of %s (each edge = one "
                "channel operation with the spec's result); non-trivial = the receiver parks and a later operation "
                "must wake it; plus %d seeded random sequences judged by TLC only" % (cfg, len(rand_runs)),
        "exhaustive": True,
        "model_edges": total, "model_edges_replayed_on_impl": covered,
        "driver_mismatches": summ["mismatches"], "impl_steps": summ["steps"],
        "samples": [{"schedule": scheds[0]}, {"observed_trace": sched_runs[0]},
                    {"random_trace": rand_runs[0][:12]}],
    })
    ctx.assumptions += ["counting wakers observe wake-ups; extra wake-ups are allowed by the spec",
                        "messages are 1,2,3,.. in send order, so FIFO/exactly-once is visible in values"]


def replay(ctx, path):
    vlib.cargo_build(["vlocal"])
    rp = json.load(open(path))["replay"]
    sfile = os.path.join(ctx.workdir, "replay-sched.ndjson")
    tfile = os.path.join(ctx.workdir, "replay-trace.ndjson")
    if rp.get("schedule"):
        vlib.write_ndjson(sfile, [rp["schedule"]])
        vlib.run_harness("vlocal", ["chan", "--schedules", sfile, "--trace", tfile])
        runs = vlib.split_runs(vlib.read_ndjson(tfile))
    else:
        runs = [rp["trace"]]
    accepted, rejects = vlib.validate_runs(TMOD, "Trace_C16.cfg", runs, ctx.workdir, tag="c16r")
    ctx.cov.update({"evaluations": 1, "distinct_nontrivial": 1, "states": 1, "transitions": 1,
                    "traces_validated_against_impl": accepted})
    for (ri, pos, pred) in rejects:
        rec = runs[ri][min(pos, len(runs[ri]) - 1)]
        ctx.violation(signature(rec), "replay rejected at record %d: %s" % (pos, json.dumps(rec)), rp)
