"""End-to-end part of C06: ServerStop.tla (protocol across server loop, accept thread, workers) model-checked by TLC;
scenarios on a real Server (real threads, sockets, signals in a child process) recorded and judged by TLC against
ServerStopTrace.tla (predicate mode)."""
import json
import os

import vlib

MOD = "server/ServerStop.tla"
TMOD = "server/ServerStopTrace.tla"
NEGS = {"NEG_stop_ForcedReach.cfg": ["NEG_ForcedNeverCompletesWithLive"],       # reachability: forced completes with live conns
        "NEG_stop_GracefulSkipsAwait.cfg": ["C06_GracefulWaits"],
        "NEG_stop_CompleteBeforeJoin.cfg": ["C06_NoDispatchAfterCompletion", "Steps"],
        "NEG_stop_TermIsForced.cfg": ["C06_SignalKinds"],
        "NEG_stop_AwaitsLastWorkerOnly.cfg": ["C06_GracefulWaits"],
        "NEG_stop_WakeAcceptFirst.cfg": ["C06_GracefulLetsFinish"],
        "NEG_stop_MidPollIgnoresStop.cfg": ["C06_GracefulLetsFinish"],   # defect F9: the closed queue ends a worker in mid-poll
        "NEG_stop_ForcedReachBusy.cfg": ["NEG_ForcedNeverCompletesWithBusy"],  # reachability: forced completes while a worker thread is blocked      # defect F8: accept thread told to stop before the workers
        "NEG_stop_SecondStopHangs.cfg": ["temporal"]}


def signature(rec, pred):
    return "%s:%s" % (pred, rec.get("e"))


def scenarios(ctx):
    sc = vlib.read_ndjson(os.path.join(vlib.ROOT, "corpus", "e2e_stop_quick.ndjson"))
    if not ctx.quick:
        sc += vlib.read_ndjson(os.path.join(vlib.ROOT, "corpus", "e2e_stop_thorough.ndjson"))
        # seeded variations: release instants relative to the stop and to the 1 s ticks
        for n in range(12):
            conns = ctx.rng.randint(1, 3)
            rel = []
            for c in range(conns):
                at = ctx.rng.choice(["before_stop", "never", ctx.rng.randint(0, 2400)])
                rel.append({"c": c, "at": at})
            sc.append({"name": "seeded-%d" % n, "workers": ctx.rng.randint(1, 2), "shutdown_s": ctx.rng.randint(1, 2),
                       "conns": conns, "stop": ctx.rng.choice(["graceful", "forced"]), "release": rel,
                       "second_stop": ctx.rng.random() < 0.3, "drop_future": ctx.rng.random() < 0.2,
                       "pause_first": ctx.rng.random() < 0.2, "late_connect": ctx.rng.random() < 0.5})
    return sc


def validate(ctx, scs, tag):
    sfile = os.path.join(ctx.workdir, "%s-scenarios.ndjson" % tag)
    tfile = os.path.join(ctx.workdir, "%s-trace.ndjson" % tag)
    vlib.write_ndjson(sfile, scs)
    r = vlib.run_harness("vsrv", ["e2e", "--scenarios", sfile, "--trace", tfile], timeout=600)
    summ = json.loads(r.stdout.strip().splitlines()[-1])
    runs = vlib.split_runs(vlib.read_ndjson(tfile))
    accepted, rejects = vlib.validate_runs(TMOD, "Trace_C06_e2e.cfg", runs, ctx.workdir, tag=tag, max_rejects=6)
    return summ, runs, accepted, rejects


def join_all(ctx):
    """join_all.rs against JoinAll.tla: every script vector (1..3 futures, 0..2 Pending polls each) emitted by TLC is run
    on the crate's JoinAll; rounds until Ready, polls per future and the result order must equal the spec's."""
    res = ctx.model_check("server/JoinAll.tla", "MC_C06_joinall.cfg", workers=1)
    vlib.require_ok(res, "MC_C06_joinall.cfg")
    ctx.add_tlc("MC_C06_joinall.cfg", res, "exhaustive over all scripts; vectors")
    ctx.expect_neg("server/JoinAll.tla", "NEG_C06_joinall_ReadyFromLastOnly.cfg", ["C06_JoinAllWaitsForAll"])
    vecs = list(vlib.tagged_json(res.stdout, "VEC"))
    vfile = os.path.join(ctx.workdir, "joinall-vectors.ndjson")
    tfile = os.path.join(ctx.workdir, "joinall-trace.ndjson")
    vlib.write_ndjson(vfile, vecs)
    r = vlib.run_harness("vsrv", ["joinall", "--vectors", vfile, "--trace", tfile])
    summ = json.loads(r.stdout.strip().splitlines()[-1])
    ctx.cov["evaluations"] += len(vecs)
    ctx.cov["distinct_nontrivial"] += sum(1 for v in vecs if len(v["k"]) > 1 and len(set(v["k"])) > 1)
    ctx.cov["joinall_vectors"] = len(vecs)
    for m in summ["first_mismatches"][:3]:
        ctx.violation("joinall", "join_all: scripts %s: the spec gives rounds=%s polls=%s result=%s, the crate's JoinAll gives %s" % (
            m["expected"]["k"], m["expected"]["rounds"], m["expected"]["polls"], m["expected"]["result"], json.dumps(m["observed"])),
            {"mode": "joinall", "vector": m["expected"]})


def run(ctx):
    join_all(ctx)
    for cfg, note in ([("MC_stop_quick.cfg", "exhaustive")] if ctx.quick else
                      [("MC_stop_quick.cfg", "exhaustive"), ("MC_stop_thorough.cfg", "exhaustive, 3 connections/worker, timeout 3")]):
        res = ctx.model_check(MOD, cfg, workers=8)
        vlib.require_ok(res, cfg)
        ctx.add_tlc(cfg, res, note)
    for cfg in (["LIVE_stop_w1.cfg"] if ctx.quick else ["LIVE_stop_w1.cfg", "LIVE_stop.cfg"]):
        res = ctx.model_check(MOD, cfg, workers=4)
        vlib.require_ok(res, cfg)
        ctx.add_tlc(cfg, res, "liveness: every stop future and the Server future resolve (weak fairness)")
    for cfg, note in [("MC_stop_busy.cfg", "exhaustive, worker threads may be blocked by a non-yielding handler"),
                      ("LIVE_stop_busy.cfg", "liveness with a blocked worker thread (it unblocks eventually)"),
                      ("NEG_stop_ForcedAwaitsWorkersBusy.cfg", "a forced stop that awaits the workers never completes while a worker "
                       "thread is blocked: the reachability property above distinguishes the two designs")]:
        res = ctx.model_check(MOD, cfg, workers=4)
        vlib.require_ok(res, cfg)
        ctx.add_tlc(cfg, res, note)
    for cfg, exp in NEGS.items():
        ctx.expect_neg(MOD, cfg, exp)
    # the server's handle vector across worker replacements (what Stop is sent through)
    res = ctx.model_check("server/ServerHandles.tla", "MC_handles.cfg", workers=2)
    vlib.require_ok(res, "MC_handles.cfg")
    ctx.add_tlc("MC_handles.cfg", res, "exhaustive: every sequence of <= 5 worker replacements, 3 workers, then Stop")
    ctx.expect_neg("server/ServerHandles.tla", "NEG_handles_ByPosition.cfg", ["H_AllLiveOnce", "C06_EveryWorkerHearsStop"])
    scs = scenarios(ctx)
    summ, runs, accepted, rejects = validate(ctx, scs, "c06e2e")
    # a real-time rejection is repeated before it is believed (scheduling hiccups must not raise alarms)
    confirmed = []
    for (ri, pos, pred) in rejects:
        summ2, runs2, acc2, rej2 = validate(ctx, [scs[ri]], "c06e2e-retry%d" % ri)
        if rej2:
            confirmed.append((ri, runs2[0][min(rej2[0][1], len(runs2[0]) - 1)], rej2[0][2], runs2[0]))
        else:
            vlib.log("e2e scenario %s: rejection not reproduced on retry (ignored)" % scs[ri].get("name"))
            accepted += 1
    ctx.cov["traces_validated_against_impl"] += accepted
    ctx.cov["evaluations"] += len(scs)
    ctx.cov["distinct_nontrivial"] += sum(1 for s in scs if s.get("conns", 1) > 0 or s.get("signal"))
    ctx.cov["e2e_scenarios"] = len(scs)
    ctx.cov["e2e_events"] = summ["steps"]
    ctx.cov["samples"].append({"e2e_scenario": scs[0], "events": [r.get("raw") for r in runs[0][1:]]})
    for (ri, rec, pred, run) in confirmed:
        ctx.violation(signature(rec, pred), "end-to-end: predicate %s is false at event %s of scenario %s" % (
            pred, json.dumps(rec.get("raw")), scs[ri].get("name")), {"mode": "e2e", "scenario": scs[ri], "trace": run})


def replay(ctx, path):
    vlib.cargo_build(["vsrv"])
    rp = json.load(open(path))["replay"]
    if rp.get("mode") == "joinall":
        return join_all(ctx)
    summ, runs, accepted, rejects = validate(ctx, [rp["scenario"]], "c06e2e-replay")
    ctx.cov.update({"evaluations": 1, "distinct_nontrivial": 1, "states": 1, "transitions": 1,
                    "traces_validated_against_impl": accepted, "samples": [runs[0][-1]]})
    for (ri, pos, pred) in rejects:
        rec = runs[ri][min(pos, len(runs[ri]) - 1)]
        ctx.violation(signature(rec, pred), "replay (real time; not bit-reproducible): %s false at %s" % (pred, json.dumps(rec.get("raw"))), rp)
