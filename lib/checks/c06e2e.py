"""End-to-end part of C06 (real Server on real threads). Filled in below."""


def run(ctx):
    pass


def replay(ctx, path):
    pass
