"""C07 — workers call services only when ready; a failed readiness check rebuilds only that service.
Spec: server/Worker.tla (one action = one poll of the ServerWorker future)."""
import workerflow

INV = ["T_C07_CallOnlyAfterAllReady", "T_C07_Fifo", "T_C07_RestartOnlyFailed", "T_C07_FailedIsRecreated", "T_C07_NoneLost", "T_C07_QueuedMeansOwed", "T_C07_QueueMeasured"]
DESIGN = ["MC_worker_ready.cfg", "MC_worker_ready_k1.cfg", "MC_worker_batch_rewake.cfg"]
THOROUGH = ["MC_worker_ready3.cfg"]
NEGS = {"NEG_worker_ReadyCheckOnce.cfg": ["Steps"], "NEG_worker_RestartAll.cfg": ["Steps"],
        "NEG_worker_LifoQueue.cfg": ["C07_Fifo"], "NEG_worker_ErrKeepsPolling.cfg": ["Steps"],
        "NEG_worker_BatchNoRewake.cfg": ["C07_QueuedMeansOwed"]}


def nontrivial(s, run):
    # some poll saw a non-ready answer and some connection was served afterwards
    nr = False
    for r in run:
        for e in r.get("st", {}).get("pe", []):
            if e["t"] == "ready" and e["a"] != 1:
                nr = True
            if e["t"] == "call" and nr:
                return True
    return False


def run(ctx):
    workerflow.run_check(
        ctx, design=DESIGN, edge_cfgs=DESIGN[:2], negs=NEGS, invariants=INV, corpus=["worker_ready.ndjson"],
        thorough_design=THOROUGH, nontrivial=nontrivial,
        rule="schedules = init-rooted paths covering the edges of Worker.tla's state graph (1..2 services, readiness scripts "
             "with Pending/Err answers in every position, factory re-creation with a pending poll, <= 3 connections in every "
             "arrival order relative to the polls) + NEG counterexamples + corpus (3 services); executed on the real "
             "ServerWorker future; per poll the services' own log (poll_ready answers, calls, creations) is judged by TLC; "
             "non-trivial = a connection is served after some service answered not-ready")
    # "queued connections are served once readiness returns", accept loop and worker together: a worker that parks with a
    # non-empty queue and no wake-up owed never serves them (bursts of 70-80 connections queued at a worker, back-pressure)
    import srvflow
    srvflow.run_check(
        ctx, design=[], edge_cfgs=[], negs={}, invariants=["T_C07_QueuedMeansWoken", "T_C01_Conservation"],
        corpus=["server_core.ndjson"], random_flavour="ready", random_quick=80, random_thorough=1500, strict_quick=0,
        nontrivial=lambda s, run: any(any(n > 1 for n in r["st"]["chanLen"]) for r in run if "st" in r),
        rule="server flow for C07: corpus (bursts of 70-80 connections queued at a worker) + random schedules with application "
             "back-pressure on the real accept loop and workers; a worker that is Available with a non-empty queue is owed a poll")
    # end to end through the public API: a failed readiness check rebuilds that service and only it, from its own factory
    # (Builder.tla: one more instance of that call's factory, every socket still answered by its own call's service)
    import srvbuilder
    srvbuilder.run(ctx, n_quick=24)


def replay(ctx, path):
    import json as _j
    if _j.load(open(path))["replay"].get("mode") == "builder":
        import srvbuilder
        return srvbuilder.replay(ctx, path)
    workerflow.replay(ctx, path, INV)
