"""C14 — Framed writes are lossless, ordered and bounded, and close flushes.
Spec: spec/codec/FramedWrite.tla (write_buf length, bytes accepted / taken by the transport, per-operation
transport scripts).  Binding: every edge of the bounded model (operation x transport script x size class) is
replayed on the real Framed (BytesCodec and LinesCodec encoders alternate) over a scripted AsyncWrite; results,
bytes held by the transport (byte-identical prefix check in the driver) and the empty/full observations are
compared with the edge label and the recorded traces are validated by TLC (FramedWriteTrace, strict), plus
seeded random operation sequences with arbitrary sizes and answers judged by TLC alone."""
import vlib

MOD = "codec/FramedWrite.tla"
TMOD = "codec/FramedWriteTrace.tla"
NEGS = {"NEG_C14_CloseFlushesBuffer.cfg": ["C14_CloseMeansEmptyAndShutdown"],
        "NEG_C14_ReadyThresholdLe.cfg": ["C14_Backpressure"],
        "NEG_C14_FlushIgnoresLeftover.cfg": ["C14_FlushMeansEmpty"],
        "NEG_C14_ZeroIsOk.cfg": ["C14_WriteZero", "C14_FlushMeansEmpty"],
        "NEG_C14_AdvanceWholeBuffer.cfg": ["C14_PrefixOrder"]}


def signature(rec):
    return "write:%s:%s" % (rec.get("ev", rec.get("op")), str(rec.get("res", ""))[:12])


def nontrivial(s):
    """some flush/close/ready made two or more poll_write calls (a partial write happened) or met a Pending, a
    zero-length write or an error from poll_write"""
    for a in s:
        ws = [x for x in a["io"] if x["c"] == "w"]
        if a["op"] != "send" and (len(ws) >= 2 or any(x["a"] != "take" for x in ws)):
            return True
    return False


def run(ctx):
    vlib.cargo_build(["vcodec"])
    nrand = 300 if ctx.quick else 5000
    out = vlib.edge_replay_flow(
        ctx, module=MOD, cfg="MC_C14_quick.cfg" if ctx.quick else "MC_C14_thorough.cfg", negs=NEGS,
        tmodule=TMOD, tcfg="Trace_C14.cfg", harness="vcodec", mode="write", signature=signature,
        extra_args=["--random", nrand, "--len", 12 if ctx.quick else 30, "--seed", ctx.seed], extra_runs=nrand,
        nontrivial=nontrivial, tlc_timeout=2400)
    ctx.cov["rule"] = ("schedules = init-rooted paths covering every edge of the TLC state graph of FramedWrite (each edge = one "
                       "Sink operation with the transport answers it consumes and the spec's result); non-trivial = some "
                       "flush/close/ready met a partial write, Pending, zero-length write or error while bytes were buffered; "
                       "plus %d seeded random sequences (arbitrary sizes/answers) judged by TLC only" % nrand)
    ctx.cov["samples"].append({"random_trace": out["rand_runs"][0][:8]})
    ctx.assumptions += ["payload bytes follow a position-dependent pattern, so loss/duplication/reordering shows as a prefix mismatch",
                        "the model counts bytes; byte identity is measured by the driver (prefix_ok) and required by the trace spec",
                        "schedules alternate BytesCodec and LinesCodec encoders (item of n bytes = n-1 characters + LF)"]


def replay(ctx, path):
    vlib.cargo_build(["vcodec"])
    vlib.replay_flow(ctx, path, harness="vcodec", tmodule_by_mode={"write": (TMOD, "Trace_C14.cfg")}, signature=signature)
