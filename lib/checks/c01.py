"""C01 — each accepted connection reaches exactly one call of its listener's service.
Spec: server/AcceptDispatch.tla (C01_Conservation, C01_ServedOnce, C01_NoSilentDrop); worker-side drain in Worker.tla."""
import srvflow

INV = ["T_C01_ServedOnce", "T_C01_Conservation", "T_C01_NoSilentDrop", "T_C07_QueuedMeansWoken", "T_C08_NoPanic", "T_C08_NoSpin"]
DESIGN = ["MC_core_2l.cfg", "MC_core_quick.cfg", "MC_fault_w1.cfg"]
EDGES = ["MC_core_2l.cfg", "MC_fault_w1.cfg"]
THOROUGH = ["MC_core_w3l3.cfg", "MC_core_w3l3c7.cfg", "MC_cmd_w2.cfg", "MC_cmd_w2b.cfg", "MC_fault2.cfg"]
NEGS = {}


def nontrivial(s, run):
    return len(s["cfg"]["listeners"]) >= 2 and len(run[-1]["st"]["served"]) >= 2


def run(ctx):
    srvflow.run_check(
        ctx, design=DESIGN, edge_cfgs=EDGES, negs=NEGS, invariants=INV,
        corpus=["server_core.ndjson", "server_cmd.ndjson", "server_fault.ndjson"],
        thorough_design=THOROUGH, nontrivial=nontrivial, random_flavour=('core', 'mix'), random_quick=200,
        rule="schedules = edge cover of the two-listener (TCP+UDS) and single-fault configs + corpus (pause/resume/stop, "
             "faults); the service-side call log (worker, token the service was built for, peer address = connection "
             "identity) is checked by TLC: one call per connection, by the worker it was dispatched to, for its own "
             "listener; every connection is in exactly one place; no unserved connection is closed without a fault/stop; "
             "non-trivial = two listeners and at least two served connections")


    # clause "connections still queued at a worker when it shuts down are released rather than served or leaked":
    # Worker.tla stop configs on the real ServerWorker
    import workerflow
    workerflow.run_check(
        ctx, design=["MC_worker_stop.cfg"], edge_cfgs=["MC_worker_stop.cfg"],
        negs={"NEG_worker_DrainCalls.cfg": ["Steps"], "NEG_worker_DrainOnlyAtStop.cfg": ["Steps"]},
        invariants=WINV, corpus=["worker_stop.ndjson"], thorough_design=["MC_worker_stop2.cfg"], tag="c01w",
        nontrivial=lambda s, run: any(r.get("do") == "StopWorker" and any(t > 0 for t in r.get("prevTotal", [])) for r in run),
        rule="shutdown drain: paths covering every edge of Worker.tla's stop configs (connections queued or arriving while the "
             "worker shuts down) on the real ServerWorker: nothing is served after a graceful stop was received, the queue is "
             "empty after every poll of a worker that is shutting down, and what was queued ends closed")

    # clause "never silently discarded while the server is running and a worker is alive", worker side: whatever the
    # services' readiness does, what was dispatched to a worker is in its queue until it is called (Worker.tla readiness configs)
    workerflow.run_check(
        ctx, design=["MC_worker_ready.cfg"], edge_cfgs=["MC_worker_ready.cfg"], negs={}, invariants=["T_C07_QueueMeasured"],
        corpus=["worker_ready.ndjson"], tag="c01r", max_paths_quick=250,
        nontrivial=lambda s, run: any(e.get("t") == "ready" and e.get("a") != 1 for r in run for e in r.get("st", {}).get("pe", [])),
        rule="worker side of 'never silently discarded': readiness scripts (Pending / Err in every position) against queued "
             "connections on the real ServerWorker; dispatched and not yet called = measured queue length")

    import srvload
    srvload.run(ctx)

    # "its listener's service": the token / factory / socket wiring of ServerBuilder for every call sequence (Builder.tla)
    import srvbuilder
    srvbuilder.run(ctx)


WINV = ["T_C01_NoCallInShutdown", "T_C01_ShutdownDrainsQueue", "T_C01_DrainReleases", "T_C07_QueueMeasured"]


def replay(ctx, path):
    import json as _j
    if _j.load(open(path))["replay"].get("mode") == "e2e-load":
        import srvload
        return srvload.replay(ctx, path)
    if _j.load(open(path))["replay"].get("mode") == "builder":
        import srvbuilder
        return srvbuilder.replay(ctx, path)
    import json
    rp = json.load(open(path))["replay"]
    if any(i in WINV for i in (rp.get("invariants") or [])):
        import workerflow
        workerflow.replay(ctx, path, WINV)
    else:
        srvflow.replay(ctx, path, INV)
