"""C01 — each accepted connection reaches exactly one call of its listener's service.
Spec: server/AcceptDispatch.tla (C01_Conservation, C01_ServedOnce, C01_NoSilentDrop); worker-side drain in Worker.tla."""
import srvflow

INV = ["T_C01_ServedOnce", "T_C01_Conservation", "T_C01_NoSilentDrop"]
DESIGN = ["MC_core_2l.cfg", "MC_core_quick.cfg", "MC_fault_w1.cfg"]
EDGES = ["MC_core_2l.cfg", "MC_fault_w1.cfg"]
THOROUGH = ["MC_core_w3l3.cfg", "MC_cmd_w2.cfg", "MC_fault2.cfg"]
NEGS = {}


def nontrivial(s, run):
    return len(s["cfg"]["listeners"]) >= 2 and len(run[-1]["st"]["served"]) >= 2


def run(ctx):
    srvflow.run_check(
        ctx, design=DESIGN, edge_cfgs=EDGES, negs=NEGS, invariants=INV,
        corpus=["server_core.ndjson", "server_cmd.ndjson", "server_fault.ndjson"],
        thorough_design=THOROUGH, nontrivial=nontrivial,
        rule="schedules = edge cover of the two-listener (TCP+UDS) and single-fault configs + corpus (pause/resume/stop, "
             "faults); the service-side call log (worker, token the service was built for, peer address = connection "
             "identity) is checked by TLC: one call per connection, by the worker it was dispatched to, for its own "
             "listener; every connection is in exactly one place; no unserved connection is closed without a fault/stop; "
             "non-trivial = two listeners and at least two served connections")


def replay(ctx, path):
    srvflow.replay(ctx, path, INV)
