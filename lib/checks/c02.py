"""C02 — per-worker concurrency never exceeds max_concurrent_connections.
Spec: server/AcceptDispatch.tla, invariant C02_Bound over all states incl. the window between send and increment."""
import srvflow

INV = ["T_C02_Bound"]
DESIGN = ["MC_core_quick.cfg", "MC_core_l1.cfg", "MC_core_w1.cfg", "MC_core_2l.cfg", "MC_cmd_quick.cfg"]
EDGES = ["MC_core_quick.cfg", "MC_core_l1.cfg", "MC_core_w1.cfg", "MC_cmd_quick.cfg"]
THOROUGH = ["MC_core_w3.cfg", "MC_core_l3.cfg", "MC_core_l4.cfg", "MC_core_w3l3.cfg", "MC_core_w3c7.cfg", "MC_core_l4c9.cfg", "MC_core_w3l3c7.cfg"]
NEGS = {"NEG_NoClearOnLimit.cfg": ["C02_Bound"]}


def nontrivial(s, run):
    lim = s["cfg"]["Limit"]
    return any(any(len(c) + len(p) >= lim for c, p in zip(r["st"]["chan"], r["st"]["inprog"])) for r in run if "st" in r)


def run(ctx):
    srvflow.run_check(
        ctx, design=DESIGN, edge_cfgs=EDGES, negs=NEGS, invariants=INV, corpus=["server_core.ndjson", "server_cmd.ndjson", "server_cmd_sat.ndjson"],
        thorough_design=THOROUGH, nontrivial=nontrivial, random_flavour=('core', 'ready'), random_quick=240,
        rule="schedules = edge cover of the core AcceptDispatch configs + NEG counterexample + corpus (limits 1..4, workers "
             "1..3); at every recorded state queued+in-progress per worker (measured channel length + live service futures) "
             "is compared with the limit by TLC; non-trivial = some worker reaches its limit during the run")
    import srvload
    srvload.run(ctx)


def replay(ctx, path):
    import json as _j
    if _j.load(open(path))["replay"].get("mode") == "e2e-load":
        import srvload
        return srvload.replay(ctx, path)
    srvflow.replay(ctx, path, INV)
