"""C20 — ByteString is always valid UTF-8 and agrees with str.

Spec: spec/bytestring/Utf8.tla.  TLC walks every byte string of length <= MaxLen over an alphabet that
touches every row and limit of Unicode Table 3-7, checks that the table (a DFA) accepts exactly the
sequences the definition (decode, scalar value, shortest form) accepts, and prints one vector
(bytes, valid, char boundaries) per string.  Five NEG configs mis-transcribe one table cell each and must
be rejected.

Binding: harness `vbytestring vectors` applies every constructor of the public API to every vector and
compares with the spec's verdict (accept iff valid; split_at panics exactly off the boundaries; halves
and sub-slices re-validated by the spec's table).  Observations (accepted / rejected / set of mids at
which split_at returned) are written back and judged by TLC (Utf8Trace.tla, predicate
C20_ObservedAgrees).  Comparison / hashing / Display / String conversion parity with `str` is
differential against std (not modelled)."""
import json
import os

import vlib

MOD = "bytestring/Utf8.tla"
TMOD = "bytestring/Utf8Trace.tla"
TCFG = "Trace_C20.cfg"
NEGS = {"NEG_C20_AcceptSurrogates.cfg": ["C20_TableIsDefinition"],
        "NEG_C20_AcceptOverlongE0.cfg": ["C20_TableIsDefinition"],
        "NEG_C20_AcceptOverlongF0.cfg": ["C20_TableIsDefinition"],
        "NEG_C20_AcceptAboveMax.cfg": ["C20_TableIsDefinition"],
        "NEG_C20_AcceptOverlongC0.cfg": ["C20_TableIsDefinition"]}


def _hex(s):
    return " ".join("%02X" % b for b in s)


def signature(step):
    """class of a driver step name: 'ctor:vec', 'split_at', 'slice_ref', 'pair', 'from_string:display' ..."""
    parts = str(step).split(":")
    if parts[0] == "ctor":
        return "c20:ctor:%s" % ":".join(parts[1:])
    if parts[0] in ("split_at", "slice_ref", "pair", "shared"):
        return "c20:%s" % parts[0]
    return "c20:%s" % parts[-1]


def _payloads(stdout, tag="VEC"):
    """JSON payload strings of PrintT(<<"VEC", json>>) lines, without parsing them."""
    pre = '<<"%s", "' % tag
    for line in stdout.splitlines():
        if line.startswith(pre) and line.endswith('">>'):
            yield vlib._unq(line[len(pre):-3])


def _context(vec, by_key, extra=()):
    """the vector plus the spec's vectors of all its contiguous sub-strings (the driver re-validates halves
    and sub-slices against the table) plus `extra` vectors (pair partner)."""
    out, seen = [], set()

    def add(v):
        k = tuple(v["s"])
        if k not in seen:
            seen.add(k)
            out.append(v)
    add(vec)
    for e in extra:
        add(e)
    s = vec["s"]
    for i in range(len(s) + 1):
        for j in range(i, len(s) + 1):
            sub = by_key.get(tuple(s[i:j]))
            if sub is not None:
                add(sub)
    return out


def _drive(ctx, vfile, tfile, nvec, tag):
    args = ["vectors", "--schedules", vfile, "--trace", tfile, "--seed", ctx.seed,
            "--pairs", 16 if ctx.quick else 64, "--trace-sample", 2000 if ctx.quick else 20000]
    r = vlib.run_harness("vbytestring", args, timeout=1800)
    try:
        summ = json.loads(r.stdout.strip().splitlines()[-1])
    except Exception:
        raise vlib.ToolError("vbytestring printed no summary")
    if summ["runs"] != nvec:
        raise vlib.ToolError("vbytestring processed %d of %d vectors" % (summ["runs"], nvec))
    if summ["oracle_disagreements"]:
        raise vlib.ToolError("the spec's table and std disagree (%d cases, first %s): the oracle is broken, "
                             "no verdict" % (summ["oracle_disagreements"], json.dumps(summ["oracle_first"][:2])))
    if summ.get("table_miss"):
        vlib.log("note: %d halves were not in the spec's table (replay context)" % summ["table_miss"])
    return summ


def _judge_traces(ctx, tfile, vecs, by_key, tag):
    runs = vlib.split_runs(vlib.read_ndjson(tfile))
    accepted, rejects = vlib.validate_runs(TMOD, TCFG, runs, ctx.workdir, tag=tag, max_rejects=5)
    ctx.cov["traces_validated_against_impl"] += accepted
    for (ri, pos, pred) in rejects:
        rec = next((r for r in runs[ri] if r.get("ev") == "vec"), runs[ri][0])  # run = [reset, vec, end]
        vec = vecs[rec["i"]] if rec.get("i") is not None and rec["i"] < len(vecs) else {"s": rec.get("s"), "v": None, "b": []}
        ln = len(rec.get("s", []))
        cmp_bad = vec.get("v") and (rec.get("eqp") != [ln] or rec.get("eqs") != [0])
        what = "ctor" if (rec.get("acc") != vec.get("v") or rec.get("rej") == vec.get("v")) else (
            "shared" if cmp_bad and sorted(rec.get("split", [])) == sorted(vec.get("b", [])) else "split_at")
        ctx.violation("c20:%s" % what,
                      "TLC: %s is false on the observation of bytes [%s]: all constructors accepted=%s, all "
                      "rejected=%s, split_at returned at %s, left half == whole at %s, right half == whole at %s; the "
                      "table says valid=%s, boundaries=%s" % (
                          pred or "C20_ObservedAgrees", _hex(rec.get("s", [])), rec.get("acc"), rec.get("rej"),
                          rec.get("split"), rec.get("eqp"), rec.get("eqs"), vec.get("v"), vec.get("b")),
                      {"vectors": _context(vec, by_key) if vec.get("v") is not None else [], "observed": rec})
    return runs, accepted, rejects


def run(ctx):
    vlib.cargo_build(["vbytestring"])
    cfg = "MC_C20_quick.cfg" if ctx.quick else "MC_C20_thorough.cfg"
    res = ctx.model_check(MOD, cfg, workers=4, timeout=1500, xmx="6g")
    vlib.require_ok(res, cfg)
    ctx.add_tlc(cfg, res, "exhaustive: one state per byte string; Table 3-7 DFA = definition at every state; vectors printed")
    for ncfg, exp in NEGS.items():
        ctx.expect_neg(MOD, ncfg, exp)
    vfile = os.path.join(ctx.workdir, "c20-vectors.ndjson")
    vecs = []
    with open(vfile, "w") as f:
        for p in _payloads(res.stdout):
            f.write(p + "\n")
            vecs.append(json.loads(p))
    del res
    if len(vecs) < 2 or not any(v["v"] and len(v["b"]) < len(v["s"]) + 1 for v in vecs):
        raise vlib.ToolError("TLC printed %d vectors and no valid multi-byte one" % len(vecs))
    by_key = {tuple(v["s"]): v for v in vecs}
    if len(by_key) != len(vecs):
        raise vlib.ToolError("duplicate vectors in the TLC output")
    tfile = os.path.join(ctx.workdir, "c20-trace.ndjson")
    summ = _drive(ctx, vfile, tfile, len(vecs), "c20")

    # driver verdicts (spec's expected value vs observation; str parity)
    for m in summ["first_mismatches"]:
        vec = vecs[m["run"]]
        extra = []
        parts = m["step"].split(":")
        if parts[0] == "pair":
            extra.append(vecs[int(parts[2])])
        ctx.violation(signature(m["step"]),
                      "bytes [%s] (spec: valid=%s boundaries=%s), step %s: expected %s, observed %s" % (
                          _hex(vec["s"]), vec["v"], vec["b"], m["step"], json.dumps(m["expected"]),
                          json.dumps(m["observed"])),
                      {"vectors": _context(vec, by_key, extra), "step": m["step"]})
    runs, accepted, rejects = _judge_traces(ctx, tfile, vecs, by_key, "c20")
    if summ["mismatches"] and not ctx.violations and not ctx.known_hits:
        raise vlib.ToolError("driver counted %d mismatches but none was reported" % summ["mismatches"])

    n_valid = sum(1 for v in vecs if v["v"])
    n_multi = sum(1 for v in vecs if v["v"] and len(v["b"]) < len(v["s"]) + 1)
    n_range = sum(1 for v in vecs if v.get("r"))
    if n_multi != summ["valid_multibyte"] or n_valid != summ["valid_vectors"]:
        raise vlib.ToolError("vector bookkeeping differs between TLC output and driver")
    ctx.cov["evaluations"] = len(vecs)
    ctx.cov["distinct_nontrivial"] = n_multi + n_range
    ctx.cov["rule"] = ("vectors = every byte string of length <= MaxLen over the alphabet of %s (one TLC state each, "
                       "all distinct); non-trivial = valid strings containing a multi-byte character (split_at must "
                       "panic at some index and return at others: %d) plus strings with correct lead/continuation "
                       "structure that only the range limits of Table 3-7 reject (overlong, surrogate, > 10FFFF, "
                       "counted by TLC's Shaped predicate: %d)" % (cfg, n_multi, n_range))
    ctx.cov["exhaustive"] = True
    ctx.cov["constants"] = {"cfg": cfg, "vectors": len(vecs), "valid": n_valid}
    ctx.cov["impl_steps"] = summ["steps"]
    ctx.cov["driver_mismatches"] = summ["mismatches"]
    ctx.cov["driver_counts"] = {k: summ[k] for k in ("ctor_accepts", "ctor_rejects", "split_calls", "split_panics",
                                                     "slice_refs", "foreign_slice_ref_panics", "pairs", "shared_comparisons", "traced")}
    multi = [v for v in vecs if v["v"] and len(v["b"]) < len(v["s"]) + 1]
    rng_rej = [v for v in vecs if v.get("r")]
    samples = vlib.sample(ctx.rng, multi, 3) + vlib.sample(ctx.rng, rng_rej, 3)
    ctx.cov["samples"] += [{"bytes_hex": _hex(v["s"]), "vector": v} for v in samples]
    if runs:
        ctx.cov["samples"].append({"observed_record_judged_by_TLC": runs[min(len(runs) - 1, 7)][1]})
    ctx.assumptions += [
        "the spec's verdict (Table 3-7 DFA, checked equal to the definition by TLC) is the oracle for constructor "
        "acceptance, split_at panics and validity of every produced value; std::str::from_utf8/str::split_at are "
        "compared with the spec too and a disagreement would be a tool error",
        "Deref/AsRef/Borrow/Display/Debug/String conversion/Hash/Eq/Ord parity is differential against std's str "
        "(std is the oracle there, not the model); pairs of independently allocated valid vectors are a seeded sample "
        "unless <= 64 valid vectors; handles that share storage (split_at halves, slice_ref results, &str sub-slices) are "
        "compared with the whole and with each other exhaustively for every valid vector, value and boundary",
        "strings longer than MaxLen and bytes outside the alphabet are not enumerated; serde feature not driven",
    ]


def replay(ctx, path):
    vlib.cargo_build(["vbytestring"])
    rp = json.load(open(path))["replay"]
    vecs = rp.get("vectors") or []
    if not vecs:
        raise vlib.ToolError("replay file carries no vectors")
    by_key = {tuple(v["s"]): v for v in vecs}
    vfile = os.path.join(ctx.workdir, "replay-vectors.ndjson")
    tfile = os.path.join(ctx.workdir, "replay-trace.ndjson")
    vlib.write_ndjson(vfile, vecs)
    summ = _drive(ctx, vfile, tfile, len(vecs), "c20-replay")
    for m in summ["first_mismatches"]:
        vec = vecs[m["run"]]
        ctx.violation(signature(m["step"]), "replay: bytes [%s], step %s: expected %s, observed %s" % (
            _hex(vec["s"]), m["step"], json.dumps(m["expected"]), json.dumps(m["observed"])),
            {"vectors": vecs, "step": m["step"]})
    runs, accepted, rejects = _judge_traces(ctx, tfile, vecs, by_key, "c20-replay")
    ctx.cov.update({"evaluations": len(vecs), "distinct_nontrivial": len(vecs), "states": max(1, len(vecs)),
                    "transitions": max(1, len(vecs)), "samples": [vecs[0]],
                    "rule": "replay of one recorded vector with the table entries of its sub-strings"})
