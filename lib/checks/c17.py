"""C17 — Counter (capacity gate, wake on release) and LocalWaker.
Specs: spec/local/CounterWaker.tla, spec/local/LocalWakerSpec.tla; every model edge replayed on the real
actix_utils::counter::Counter / local_waker::LocalWaker, traces validated by TLC (strict)."""
import vlib

NEGS = {"NEG_C17_WakeOffset.cfg": ["C17_WakeOnRelease"], "NEG_C17_KeepFirstWaker.cfg": ["C17_WakeOnRelease", "C17_Steps"],
        "NEG_C17_AvailLe.cfg": ["C17_Steps"], "NEG_C17_WakeBeforeDecrement.cfg": ["C17_WakeOnRelease"]}
NEGS_LW = {"NEG_C17_lw_WakeKeeps.cfg": ["C17_LWSteps"], "NEG_C17_lw_RegisterFlagInverted.cfg": ["C17_LWSteps"],
           "NEG_C17_lw_DropOldBeforeStore.cfg": ["C17_LWSteps"]}


def signature(rec):
    return "c17:%s:%s" % (rec.get("ev"), str(rec.get("res", ""))[:12])


def run(ctx):
    vlib.cargo_build(["vlocal"])
    vlib.edge_replay_flow(
        ctx, module="local/CounterWaker.tla", cfg="MC_C17_quick.cfg" if ctx.quick else "MC_C17_thorough.cfg",
        negs=NEGS, tmodule="local/CounterWakerTrace.tla", tcfg="Trace_C17.cfg", harness="vlocal", mode="counter",
        signature=signature, tag="c17cnt", make_schedule=lambda view, acts: {"cap": view[0], "ops": acts},
        nontrivial=lambda s: any(a["op"] == "drop" and a["woken"] != 0 for a in s["ops"]))
    vlib.edge_replay_flow(
        ctx, module="local/LocalWakerSpec.tla", cfg="MC_C17_lw.cfg", negs=NEGS_LW,
        tmodule="local/LocalWakerTrace.tla", tcfg="Trace_C17_lw.cfg", harness="vlocal", mode="lwaker",
        signature=signature, tag="c17lw",
        nontrivial=lambda s: any(a["op"] == "wake" and a["wokenset"] for a in s))
    ctx.cov["rule"] = ("schedules = init-rooted paths covering every edge of the TLC state graphs of CounterWaker "
                       "(capacities 0..3, get/drop/avail/clone) and LocalWakerSpec (register/wake/take, 2 wakers); "
                       "non-trivial = a release (resp. wake) that must wake a registered waker")
    ctx.assumptions += ["counting wakers observe wake-ups"]


def replay(ctx, path):
    vlib.cargo_build(["vlocal"])
    vlib.replay_flow(ctx, path, harness="vlocal", signature=signature, tmodule_by_mode={
        "counter": ("local/CounterWakerTrace.tla", "Trace_C17.cfg"),
        "lwaker": ("local/LocalWakerTrace.tla", "Trace_C17_lw.cfg")})
