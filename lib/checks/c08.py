"""C08 — a faulted worker is detected, bypassed and replaced; its connection is re-routed; the accept thread survives.
Spec: server/AcceptDispatch.tla with Kill / TearDown / Replace (worker generations, late availability notifications)."""
import srvflow

INV = ["T_C08_NoPanic", "T_C08_NoSpin", "T_C08_NoGhostBit", "T_C08_NoDupHandles", "T_C08_Rerouted", "T_C08_ServiceResumes", "T_C08_NoLostIndex", "T_C01_Conservation", "T_C04_NoImmediateRepeat"]
DESIGN = ["MC_fault_quick.cfg", "MC_fault_w1.cfg", "MC_cmd_fault_w1.cfg"]
EDGES = ["MC_fault_quick.cfg", "MC_fault_w1.cfg", "MC_cmd_fault_w1.cfg"]
THOROUGH = ["MC_fault2.cfg", "MC_fault_w3.cfg", "MC_fault_w3l2.cfg", "MC_cmd_fault.cfg"]
NEGS = {"NEG_IgnoreUnknownIdx_2f.cfg": ["C08_NoGhostBit", "C08_NoPanic"],
        "NEG_IgnoreUnknownIdx_2f_panic_only.cfg": ["C08_NoPanic"],
        "NEG_IgnoreUnknownIdx_spin_only.cfg": ["C08_NoSpin"],
        "NEG_RejoinPausedNoAvail.cfg": ["C04_BitsTrueWhenCalm", "C03_NoLostWake"],
        "NEG_ReportOnlyIfBitSet.cfg": ["C08_NoLostIndex"]}


def nontrivial(s, run):
    return run[-1]["st"]["everFaulted"]


def run(ctx):
    srvflow.run_check(
        ctx, design=DESIGN, edge_cfgs=EDGES, negs=NEGS, invariants=INV, corpus=["server_fault.ndjson"],
        thorough_design=THOROUGH, nontrivial=nontrivial, random_flavour=('fault', 'mix'), random_quick=240, max_paths_quick=600,
        rule="schedules = edge cover of the single-fault configs (kill at every point of a dispatch/completion history, "
             "tear-down of outstanding guards in every order, late WorkerAvailable, replacement) + counterexamples of the "
             "as-found variant (panic with one worker, spin with three) + two-fault corpus; panics and spins of the real "
             "accept loop are caught and recorded; non-trivial = a worker was killed in the run")
    import srvload
    srvload.run(ctx)
    # end to end through the public API, every builder layout: the dispatch that finds the dead worker is re-routed (or
    # dropped when it was the only worker) and the replacement builds one service per socket, each from its own factory
    import srvbuilder
    srvbuilder.run(ctx, n_quick=24)


def replay(ctx, path):
    import json as _j
    if _j.load(open(path))["replay"].get("mode") == "builder":
        import srvbuilder
        return srvbuilder.replay(ctx, path)
    if _j.load(open(path))["replay"].get("mode") == "e2e-load":
        import srvload
        return srvload.replay(ctx, path)
    srvflow.replay(ctx, path, INV)
