"""C10 — arbiter commands run FIFO, at most once, on the arbiter's own thread (actix-rt).
Shares spec (spec/rt/ActixRt.tla, RtProps.tla, ActixRtTrace.tla), driver (harness/rt) and machinery with
C09 (see checks/c09.py); judges the command-order clauses C10_* only."""
from checks import c09 as rt

NEGS_C10 = {"NEG_C10_LifoLocalQueue.cfg": ["C10_StartOrderRespectsSendOrder"],
            "NEG_C10_ExecuteAfterStop.cfg": ["C10_NothingAfterStop"],
            "NEG_C10_SelfSendSkipsChannel_stop.cfg": ["C10_NothingAfterStop"],
            "NEG_C10_SelfSendSkipsChannel_order.cfg": ["C10_StartOrderRespectsSendOrder"],
            "NEG_C10_RunInlineOnSender.cfg": ["C10_OnOwnThread"],
            "NEG_C10_DupExecute.cfg": ["C10_AtMostOnce"],
            "NEG_C10_SpawnTrueWhenGone.cfg": ["C10_SpawnFalseWhenGone"],
            "NEG_C10_RxDropAtThreadExit.cfg": ["C10_SpawnFalseWhenGone"],
            "NEG_C10_JoinEarly.cfg": ["C10_JoinAfterLoopEnd"],
            "NEG_C10_BlockOnInexact.cfg": ["C10_BlockOnOutput"],
            "NEG_C10_DequeueBatchLosesWake.cfg": ["C10_AcceptedStarts"],
            "NEG_C10_StopTakenByPollRecvIsDropped.cfg": ["C10_NothingAfterStop"]}


def run(ctx):
    if ctx.quick:
        cfgs = [("MC_C10_quick.cfg", "exhaustive: 2 worker arbiters + system arbiter, 4 calls (spawn / spawn_fn / stop / "
                                     "System stop), busy tasks"),
                ("MC_C10_calls.cfg", "exhaustive: three-phase calls from 2 threads, 1 arbiter, 3 calls"),
                ("MC_C10_self.cfg", "exhaustive: 1 worker arbiter + system arbiter, 3 calls whose tasks may send to / stop "
                                    "their own arbiter from its thread (Arbiter::current())")]
    else:
        cfgs = [("MC_C10_thorough.cfg", "exhaustive: 3 worker arbiters, 5 calls"),
                ("MC_C10_quick.cfg", "exhaustive small"), ("MC_C10_calls.cfg", "three-phase calls"),
                ("MC_C10_self.cfg", "tasks that send to / stop their own arbiter from its thread"),
                ("MC_C10_self_thorough.cfg", "the same with 2 worker arbiters, 3 calls")]
    rt.model_checks(ctx, cfgs, NEGS_C10, need_actions=["ArbYield"])
    ctx.cov["exhaustive"] = True
    ctx.cov["constants"] = {"model": "see tlc_runs", "driver": "1..3 arbiters (+ system arbiter), owner + 1..3 sender "
                            "threads with cloned handles, 2..6 commands each, bodies done/yield/pend/panic/busy/"
                            "self_spawn/self_stop_then_spawn (sent from the arbiter's own thread), plus scenarios with "
                            "2-3 Systems hosted one after another by one OS thread (marker command per arbiter); every "
                            "task that never completes on a worker arbiter owns a guard whose destructor (end of the loop "
                            ".. exit of the thread) sends through its handle and through Arbiter::current(); bursts of "
                            "40-100 commands queued on one arbiter while its thread is blocked in a task / on the system "
                            "arbiter before run() is entered, all of which must start; a System hosted by a thread on "
                            "which an older, still living System is stopped and run to completion first; 2 x 400 (thorough 4 x 10000) "
                            "attempts at stop() from another thread while the arbiter's loop is being polled, probes behind it"}
    rt.flow(ctx, flavour="c10", tcfg="Trace_C10.cfg",
            nt_rule="a run is non-trivial when two sends to the same arbiter were ordered by real-time precedence and "
                    "the later one started (order), or a send started after a stop() call on its arbiter had ended "
                    "(afterStop), or after its arbiter's join had returned (afterGone); counted by TLC from the recorded "
                    "history at the End record of each run",
            nontrivial=lambda s: s["order"] or s["afterStop"] or s["afterGone"] or s.get("loopEndSeen"))


def replay(ctx, path):
    rt.replay_common(ctx, path, "Trace_C10.cfg")
