"""C11 - service combinators compute exactly the documented composition (results, call arguments, factory builds,
first init error).  C12 (checks/c12.py) shares this flow and judges the readiness / polling / waker clauses.

Spec: spec/service/Combinators.tla (+ CombTerms.tla: the denotational reference Eval / Calls / Build / Creates /
InitErrs).  Flow:
 1. TLC, exhaustive, on every term of depth <= 2 (split in several configs): the operational machine's log satisfies
    every C11_/C12_ predicate; TLC prints one vector per (term, scripts, request, config) = the expected rounds.
    NEG configs (one variant constant wrong) must be rejected with a predicate of this property.
    thorough: + the full script product at depth 2 and seeded random terms of depth 3 (file mode).
 2. harness `vservice` builds the REAL combinators for every vector, drives them with a manual executor (fresh waker
    per poll) and records the rounds; it flags runs whose rounds differ from the vector (multiset per round).
 3. TLC (CombinatorsTrace, predicate mode) evaluates the same C11_/C12_ predicates on the RECORDED runs: all flagged
    runs and a seeded sample.  A violation is raised only for a failing predicate of this property on a recorded run.
    Strict mode (recorded round = the machine's next action) binds the spec on the sample; a flagged run on which no
    predicate fails is reported as DRIFT (exit code stays 0)."""
import concurrent.futures
import json
import os
import re

import vlib

MOD = "service/Combinators.tla"
TMOD = "service/CombinatorsTrace.tla"
SDIR = os.path.join(vlib.SPEC, "service")

QUICK = ["svc_full", "svc_ready", "svc_call", "fac_init", "fac_ready", "fac_call", "fac_full"]
SVC_OPS = ["and_then", "map", "map_err", "apply_fn", "boxed", "rc_boxed", "rc", "refcell", "ref"]
FAC_OPS = ["fand_then", "fmap", "fmap_err", "fmap_init_err", "fmap_config", "funit_config", "fapply_fn", "fboxed",
           "fapply_cfg", "fapply_cfg_factory", "ftransform"]
THOROUGH = (["thorough_svc_full_" + o for o in SVC_OPS] + ["thorough_fac_init", "thorough_fac_ready", "thorough_fac_call"]
            + ["thorough_fac_mixed_" + o for o in FAC_OPS])

NEGS = {
    "C11": {"NEG_C11_AndThenCallsBOnErr.cfg": ["I_C11_ResultIsEval", "I_C11_SecondOnlyAfterFirstOk"],
            "NEG_C11_MapAppliedToErr.cfg": ["I_C11_ResultIsEval", "I_C11_MapperOnceOnMatchingVariant"],
            "NEG_C11_MapErrAppliedTwice.cfg": ["I_C11_ResultIsEval", "I_C11_MapperOnceOnMatchingVariant"],
            "NEG_C11_FactoryBuildsTwice.cfg": ["I_C11_FactoryBuildsEachOnceWithCfg"],
            "NEG_C11_FirstInitErrorSwallowed.cfg": ["I_C11_FirstInitErrorWins"],
            "NEG_C11_AndThenFactorySequential.cfg": ["I_C11_FirstInitErrorWins"]},
    "C12": {"NEG_C12_AndThenReadyShortCircuit.cfg": ["I_C12_PendingPolledAllWithCurrentWaker"],
            "NEG_C12_RepollAfterComplete.cfg": ["I_C12_NoPollAfterCompletion"],
            "NEG_C12_MapErrAppliedTwice.cfg": ["I_C12_ReadyErrPropagates"]},
}

_VEC_PRE = '<<"VEC", "'


def _vector_lines(stdout):
    for line in stdout.splitlines():
        if line.startswith(_VEC_PRE) and line.endswith('">>'):
            yield vlib._unq(line[len(_VEC_PRE):-3])


# ------------------------------------------------------------------------------------------------------------
# seeded random terms of depth <= 3 (inputs for TLC's file mode; TLC computes the expectation and judges)
# ------------------------------------------------------------------------------------------------------------
def _leaf(rng, p, kmax):
    return {"o": "leaf", "id": p, "kind": "svc", "rk": rng.randint(0, kmax), "rr": rng.choice(["ok", "ok", "err"]),
            "ck": rng.randint(0, kmax), "cr": rng.choice(["ok", "ok", "err"])}


def gen_svc(rng, p, d, kmax=2):
    if d == 0 or (p > 1 and rng.random() < 0.15):
        return _leaf(rng, p, kmax)
    o = rng.choice(["and_then"] * 5 + SVC_OPS[1:])
    if o == "and_then":
        return {"o": o, "id": p, "a": gen_svc(rng, 2 * p, d - 1, kmax), "b": gen_svc(rng, 2 * p + 1, d - 1, kmax)}
    return {"o": o, "id": p, "a": gen_svc(rng, 2 * p, d - 1, kmax)}


def gen_fac(rng, p, d, kmax=2):
    def scr():
        return {"fk": rng.randint(0, kmax), "fr": rng.choice(["ok", "ok", "ok", "err"])}
    if d == 0 or (p > 1 and rng.random() < 0.15):
        kind = rng.choice(["cfg", "cfg", "nocfg", "fnsvc"])
        t = {"o": "fleaf", "id": p, "kind": kind}
        t.update(scr())
        t.update({"rk": rng.randint(0, kmax), "rr": rng.choice(["ok", "ok", "err"]), "ck": rng.randint(0, kmax),
                  "cr": rng.choice(["ok", "ok", "err"])})
        if kind == "fnsvc":
            t.update({"fk": 0, "fr": "ok", "rk": 0, "rr": "ok"})
        return t
    o = rng.choice(["fand_then"] * 5 + FAC_OPS[1:])
    if o == "fand_then":
        return {"o": o, "id": p, "a": gen_fac(rng, 2 * p, d - 1, kmax), "b": gen_fac(rng, 2 * p + 1, d - 1, kmax)}
    if o == "fapply_cfg":
        t = {"o": o, "id": p, "s": gen_svc(rng, 2 * p, d - 1, kmax)}
        t.update(scr())
        return t
    t = {"o": o, "id": p, "a": gen_fac(rng, 2 * p, d - 1, kmax)}
    if o in ("fapply_cfg_factory", "ftransform"):
        t.update(scr())
    return t


def random_inputs(rng, n):
    out = []
    for i in range(n):
        t = gen_svc(rng, 1, 3) if i % 2 == 0 else gen_fac(rng, 1, 3)
        out.append({"t": t, "req": rng.choice(["a", "b", "c"]), "cfg": rng.choice(["k", "m"]) if i % 2 else "-"})
    return out


# ------------------------------------------------------------------------------------------------------------
def _tlc_vectors(ctx, cfg, env=None, workers=4):
    """One exhaustive TLC run; returns (result, the printed vectors as JSON text lines)."""
    res = ctx.model_check(MOD, cfg, workers=workers, timeout=3000, xmx="6g", env=env)
    vlib.require_ok(res, cfg)
    lines = list(_vector_lines(res.stdout))
    res.stdout = ""
    if not lines:
        raise vlib.ToolError("%s printed no vector" % cfg)
    return res, lines


def _judge(ctx, tfile, tag):
    """Predicate mode over a recorded trace file: {run -> sorted failing predicate names}."""
    res = vlib.run_tlc(TMOD, "Trace_C11C12_pred.cfg", workers=1, xmx="3g", timeout=1800, env={"TRACE": tfile},
                       dfs=True, tag="%s-%s-%d" % (ctx.prop, tag, os.getpid()))
    m = re.search(r'<<"TRACE_MATCHED", (\d+), (\d+)>>', res.stdout)
    if not m or m.group(1) != m.group(2) or not res.ok:
        print("\n".join(res.stdout.splitlines()[-30:]))
        raise vlib.ToolError("predicate-mode trace check did not consume the trace (%s)" % (m.groups() if m else res.violated))
    failing = {}
    for j in vlib.tagged_json(res.stdout, "JUDGE"):
        failing.setdefault(j["run"], set()).update(j["failing"])
    if res.stdout.count('"JUDGE"') != sum(1 for _ in vlib.tagged_json(res.stdout, "JUDGE")):
        raise vlib.ToolError("JUDGE lines present that could not be parsed")
    vlib.log("TLC predicate mode: %s records judged, %d runs with a failing predicate, %.1fs" % (
        m.group(2), len(failing), res.wall))
    return failing, int(m.group(2))


def _root(t):
    return t.get("o", "?")


def _report(ctx, runs_by_id, failing, vectors_by_run):
    """Violations for failing predicates of ctx.prop; other property's failures are only logged."""
    other = 0
    seen = set()
    for run, names in sorted(failing.items()):
        mine = sorted(n for n in names if n.startswith(ctx.prop + "_"))
        if not mine:
            other += 1
            continue
        recs = runs_by_id[run]
        head = recs[0]
        sig = "%s:%s" % (mine[0], _root(head["t"]))
        ctx.cov.setdefault("violating_runs", 0)
        ctx.cov["violating_runs"] += 1
        if sig in seen or len(seen) >= 12:      # one replay file per (predicate, root operator)
            continue
        seen.add(sig)
        ctx.violation(sig,
                      "recorded run of the real combinators violates %s on term %s req=%s cfg=%s" % (
                          ", ".join(mine), json.dumps(head["t"]), head["req"], head["cfg"]),
                      {"t": head["t"], "req": head["req"], "cfg": head["cfg"], "failing": mine,
                       "observed": recs[1:], "expected": vectors_by_run.get(run)})
    if other:
        vlib.log("%d recorded runs violate only predicates of the other property (C11/C12 share the flow); not reported here" % other)


def _drive_and_judge(ctx, sfile, nvec, tag, sample_runs):
    """Steps 2 and 3 on the vector file `sfile`."""
    tfile = os.path.join(ctx.workdir, "%s-trace.ndjson" % tag)
    smod = max(1, nvec // max(1, sample_runs))
    r = vlib.run_harness("vservice", ["run", "--schedules", sfile, "--trace", tfile, "--sample-mod", smod,
                                      "--sample-rem", ctx.seed % smod, "--max-flagged", 300 if ctx.quick else 2000],
                         timeout=1800)
    summ = json.loads(r.stdout.strip().splitlines()[-1])
    if summ["runs"] != nvec:
        raise vlib.ToolError("harness executed %d of %d vectors" % (summ["runs"], nvec))
    runs = vlib.split_runs(vlib.read_ndjson(tfile))
    runs_by_id = {rr[0]["run"]: rr for rr in runs}
    failing, _ = _judge(ctx, tfile, tag)
    flagged = {rr[0]["run"] for rr in runs if rr[0].get("flagged")}
    expected = {}
    if failing or flagged:
        want = set(failing) | flagged
        with open(sfile) as f:
            for i, line in enumerate(f):
                if i in want:
                    expected[i] = json.loads(line).get("log")
    _report(ctx, runs_by_id, failing, expected)
    # strict mode on the runs the driver did not flag: the recorded rounds are the machine's actions
    clean = [rr for rr in runs if not rr[0].get("flagged")]
    accepted, rejects = vlib.validate_runs(TMOD, "Trace_C11C12_strict.cfg", clean, ctx.workdir, tag=tag + "-strict",
                                           timeout=1800)
    ctx.cov["traces_validated_against_impl"] += accepted
    if rejects:
        raise vlib.ToolError("strict mode rejects a run the driver found equal to the vector: %r" % (rejects[:2],))
    drift = sorted(flagged - set(failing))
    if drift:
        first = runs_by_id[drift[0]][0]
        print("DRIFT spec=Combinators first-unmatched=run %d term=%s (%d recorded runs differ from the machine's rounds "
              "but satisfy every C11/C12 predicate)" % (drift[0], json.dumps(first["t"]), len(drift)), flush=True)
    ctx.cov.setdefault("driver_mismatches", 0)
    ctx.cov.setdefault("drift_runs", 0)
    ctx.cov.setdefault("impl_rounds", 0)
    ctx.cov.setdefault("runs_judged_by_tlc", 0)
    ctx.cov["driver_mismatches"] += summ["mismatches"]
    ctx.cov["drift_runs"] += len(drift)
    ctx.cov["impl_rounds"] += summ["steps"]
    ctx.cov["runs_judged_by_tlc"] += len(runs)
    ctx.cov["evaluations"] += nvec
    return runs, summ


_RES = '"res":{"k":"'


def _nontrivial(prop, line):
    combin = '"a":{' in line or '"s":{' in line       # the term has a child, i.e. at least one combinator node
    if prop == "C11":
        # the run ends on an error path: a call error short-circuited / mapped through combinators, or an init error
        k = line.rfind(_RES)
        return combin and k >= 0 and line.startswith("err", k + len(_RES))
    # C12: some root poll (poll_ready, response future, factory future) answered Pending
    return combin and (_RES + "pending") in line


RULES = {
    "C11": ("vectors = one per (term, leaf scripts, request, config) printed by TLC at the terminal state of the "
            "operational machine, for EVERY term of depth <= 2 (readiness and completion scripts varied in separate "
            "runs at depth 2, full product at depth 1; thorough: full product at depth 2 with k<=1 and seeded random "
            "terms of depth 3); each is executed on the real combinators. non-trivial = distinct vector whose term has at "
            "least one combinator node and whose run ends with an error (a call error short-circuited / mapped through "
            "the combinators, or a factory init error)"),
    "C12": ("same vectors as C11; non-trivial = distinct vector whose term has at least one combinator node and in which "
            "some root poll (poll_ready, response future or factory future) answers Pending, i.e. the no-lost-wake-up "
            "clause has an antecedent"),
}


def flow(ctx):
    vlib.cargo_build(["vservice"])
    for m in (MOD, TMOD):
        vlib.sany(m)
    names = list(QUICK) if ctx.quick else QUICK + THOROUGH
    tag = ctx.prop.lower()
    sfile = os.path.join(ctx.workdir, "%s-vectors.ndjson" % tag)
    nvec = 0
    nontrivial = 0
    seen = set()
    first_lines = []
    with open(sfile, "w") as out:
        def take(cfg, res, lines, note):
            nonlocal nvec, nontrivial
            ctx.add_tlc(cfg, res, note + ", %d vectors" % len(lines))
            for ln in lines:
                h = hash(ln)
                if h in seen:
                    continue
                seen.add(h)
                out.write(ln + "\n")
                nvec += 1
                if _nontrivial(ctx.prop, ln):
                    nontrivial += 1
                    if len(first_lines) < 2 and len(ln) < 4000 and '"and_then"' in ln:
                        first_lines.append(ln)
        with concurrent.futures.ThreadPoolExecutor(max_workers=2 if ctx.quick else 3) as ex:
            futs = [(n, ex.submit(_tlc_vectors, ctx, "MC_C11C12_%s.cfg" % (("quick_" + n) if n in QUICK else n)))
                    for n in names]
            for n, f in futs:
                res, lines = f.result()
                take("MC_C11C12_%s.cfg" % (("quick_" + n) if n in QUICK else n), res, lines, "exhaustive, design variants")
        if not ctx.quick:
            inputs = random_inputs(ctx.rng, 60000)
            ifile = os.path.join(ctx.workdir, "%s-depth3-terms.ndjson" % tag)
            vlib.write_ndjson(ifile, inputs)
            res, lines = _tlc_vectors(ctx, "MC_C11C12_file.cfg", env={"TERMS": ifile}, workers=8)
            take("MC_C11C12_file.cfg", res, lines, "seeded random terms of depth <= 3 (seed %d)" % ctx.seed)
            ctx.cov["depth3_terms_sampled"] = len(lines)
    with concurrent.futures.ThreadPoolExecutor(max_workers=3) as ex:
        for f in [ex.submit(ctx.expect_neg, MOD, ncfg, exp, workers=2) for ncfg, exp in NEGS[ctx.prop].items()]:
            f.result()
    runs, summ = _drive_and_judge(ctx, sfile, nvec, tag, 600 if ctx.quick else 6000)
    ctx.cov["distinct_nontrivial"] = nontrivial
    ctx.cov["rule"] = RULES[ctx.prop]
    ctx.cov["exhaustive"] = True
    ctx.cov["vectors"] = nvec
    ctx.cov["constants"] = {"depth_exhaustive": 2, "depth_sampled": None if ctx.quick else 3, "max_pending_polls": 2,
                            "requests": ["a", "b"], "leaf_kinds": ["svc", "cfg", "nocfg", "fnsvc"]}
    for ln in first_lines[:2]:
        v = json.loads(ln)
        ctx.cov["samples"].append({"vector": v})
    if runs:
        ctx.cov["samples"].append({"recorded_run_of_real_code": runs[0]})
    ctx.assumptions += [
        "leaves, mapper closures, the middleware built by Transform/apply_cfg closures and the type-erasing adapter are "
        "harness code; every combinator node is the real actix-service type instantiated over the adapter",
        "waker identity is observed with Waker::will_wake against every waker the executor handed out",
        "a leaf's readiness script and its completion script do not interact (checked on the full product at depth <= 1, "
        "and at depth 2 in the thorough tier), so depth-2 terms vary them in separate exhaustive runs in the quick tier",
    ]


def replay_common(ctx, path):
    vlib.cargo_build(["vservice"])
    rp = json.load(open(path))["replay"]
    ifile = os.path.join(ctx.workdir, "replay-term.ndjson")
    vlib.write_ndjson(ifile, [{"t": rp["t"], "req": rp["req"], "cfg": rp["cfg"]}])
    res, lines = _tlc_vectors(ctx, "MC_C11C12_file.cfg", env={"TERMS": ifile}, workers=1)
    ctx.add_tlc("MC_C11C12_file.cfg", res, "replay")
    sfile = os.path.join(ctx.workdir, "replay-vectors.ndjson")
    with open(sfile, "w") as f:
        for ln in lines:
            f.write(ln + "\n")
    runs, summ = _drive_and_judge(ctx, sfile, len(lines), "replay", 1)
    ctx.cov.update({"distinct_nontrivial": 1, "rule": "replay of one stored vector", "samples": [runs[0]]})


def run(ctx):
    flow(ctx)


def replay(ctx, path):
    replay_common(ctx, path)
