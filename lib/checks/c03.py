"""C03 — back-pressure releases: spare worker capacity is always used (no lost wake-up).
Spec: server/AcceptDispatch.tla (C03_NoLostWake at every quiescent state + liveness form under fairness)."""
import srvflow

# a waiting connection is "eventually dispatched" only if the accept thread is alive and its listener is not stranded: the
# predicates that say so (named after the properties that introduced them) decide C03 as well
INV = ["T_C03_NoLostWake", "T_C08_NoPanic", "T_C08_NoSpin", "T_C05_ListenerLive", "T_C05_BackoffExpires",
       "T_C05_WakesForEarliestDeadline"]
DESIGN = ["MC_core_quick.cfg", "MC_core_l1.cfg", "MC_core_w1.cfg", "MC_core_2l.cfg", "MC_cmd_quick.cfg"]
EDGES = ["MC_core_quick.cfg", "MC_core_l1.cfg", "MC_core_w1.cfg", "MC_cmd_quick.cfg"]
THOROUGH = ["MC_core_w3.cfg", "MC_core_l3.cfg", "MC_core_l4.cfg", "MC_core_w3l3.cfg", "MC_core_w3c7.cfg", "MC_core_l4c9.cfg", "MC_core_w3l3c7.cfg", "MC_cmd_w2.cfg"]
NEGS = {"NEG_WakeAtLimit.cfg": ["C03_NoLostWake"], "NEG_WakeAtLimit_l2.cfg": ["C03_NoLostWake"],
        "NEG_WakeAtLimit_w2.cfg": ["C03_NoLostWake"], "NEG_WakeSkipsAcceptAll.cfg": ["C03_NoLostWake"],
        "NEG_BackoffNeverReregisters.cfg": ["C03_NoLostWake"],
        "NEG_ResetSeparate.cfg": ["C03_NoLostWake", "C04_BitsTrueWhenCalm"]}


def nontrivial(s, run):
    # a quiescent record is reached while some worker is, or has been, at its limit
    sat = False
    for r in run:
        st = r.get("st", {})
        if any(not a for a in st.get("avail", [])):
            sat = True
        if sat and r.get("q"):
            return True
    return False


def counter_protocol(ctx):
    """The single-worker core of the protocol (CounterProtocol.tla): TLC for Limit = 3 with a bounded load, and an inductive
    invariant discharged by Apalache for EVERY limit >= 1 and unboundedly many connections: Init => IndInv,
    IndInv /\ Next => IndInv', IndInv => (C02_Bound /\ C03_NoLostWake).  The pinned tree's wake rule must be refuted."""
    import vlib
    res = ctx.model_check("server/CounterProtocol.tla", "MC_counter_l3.cfg", workers=2)
    vlib.require_ok(res, "MC_counter_l3.cfg")
    ctx.add_tlc("MC_counter_l3.cfg", res, "exhaustive (the reduced protocol is finite for a fixed limit)")
    ctx.expect_neg("server/CounterProtocol.tla", "NEG_counter_asfound.cfg", ["C03_NoLostWake"])
    mod = "server/CounterProtocol.tla"
    steps = [("ConstInit", "Init", "IndInv", 0, "ok", "Init => IndInv"),
             ("ConstInit", "IndInit", "IndInv", 1, "ok", "IndInv /\\ Next => IndInv'"),
             ("ConstInit", "IndInit", "Goal", 0, "ok", "IndInv => C02_Bound /\\ C03_NoLostWake"),
             ("ConstInitAsFound", "Init", "Goal", 6, "error", "as-found wake rule (old value = limit): goal refuted within 6 steps")]
    out = []
    for (cinit, init, inv, length, want, what) in steps:
        got = vlib.run_apalache(mod, cinit=cinit, init=init, inv=inv, length=length, tag="c03-%s-%s-%d" % (cinit, inv, length))
        if got != want:
            raise vlib.ToolError("Apalache: %s: expected %s, got %s" % (what, want, got))
        out.append({"obligation": what, "result": got})
    ctx.cov["apalache_inductive_invariant"] = {"module": "spec/server/CounterProtocol.tla", "for": "every Limit >= 1, unbounded load",
                                                "obligations": out}


def run(ctx):
    counter_protocol(ctx)
    srvflow.run_check(
        ctx, design=DESIGN, edge_cfgs=EDGES, negs=NEGS, invariants=INV, corpus=["server_core.ndjson", "server_cmd.ndjson", "server_cmd_sat.ndjson", "server_fault.ndjson"],
        random_flavour=("core", "fault", "mix", "cmd"), random_quick=360,
        thorough_design=THOROUGH, live=["LIVE_C03.cfg", "LIVE_C03_w2.cfg"],
        neg_live=[("NEG_LIVE_WakeAtLimit.cfg", ["temporal"])], nontrivial=nontrivial,
        signature=lambda rec, pred, s: "%s:W%d:L%d" % (pred, s["cfg"]["W"], s["cfg"]["Limit"]),
        rule="schedules = init-rooted paths covering the edges of the TLC state graphs of the core configs (workers 1..2, "
             "limits 1..2, <=4 connections; every interleaving of connects, accept micro-steps, worker polls and "
             "completions incl. completions between send and counter increment), counterexamples of the NEG variants, and "
             "the regression corpus (limits 1..4, 1..3 workers); non-trivial = a quiescent state is observed after some "
             "worker had been marked unavailable")
    import srvload
    srvload.run(ctx)


def replay(ctx, path):
    import json as _j
    if _j.load(open(path))["replay"].get("mode") == "e2e-load":
        import srvload
        return srvload.replay(ctx, path)
    srvflow.replay(ctx, path, INV)
