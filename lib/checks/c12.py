"""C12 - combinator readiness and polling obey the Service and Future contracts: ready is the conjunction, readiness
errors propagate (mapped), a Pending answer implies every still-pending inner service / future was polled with the
current (fresh) waker, no inner future is polled after completion, no stage is invoked twice, Pending only while an
inner future is pending.

Shares spec (spec/service/Combinators.tla), vectors, driver (harness/service) and flow with C11 - see checks/c11.py;
this module reports only failing C12_* predicates (C11 reports the C11_* ones), and runs the C12 NEG configs."""
from checks import c11


def run(ctx):
    c11.flow(ctx)


def replay(ctx, path):
    c11.replay_common(ctx, path)
