"""C19 — connector: resolution precedence, ordered fallback, hostname-verified TLS.

Spec: spec/connect/Connect.tla.  The property is one declarative predicate C19_Holds(inp, observation)
(resolution precedence, ordered fallback, default resolver, TLS hostname verification); a machine that
mirrors ResolverService::call / TcpConnectorFut / the TLS connectors is run by TLC from every input vector
of four families (TcpConnectorService, ResolverService, ConnectorService, TLS connectors) and must satisfy
the predicate at every final state; nine NEG configs switch one mechanism to a wrong design and must be
rejected.  TLC prints each vector with the expected observation.

Binding: harness `vconnect vectors` calls the real services once per vector against loopback listeners,
closed ports, an unreachable address, custom resolvers with a call log and in-process TLS servers with
rcgen certificates; it compares with the printed expectation, and every recorded observation is judged
again by TLC with the same predicate (ConnectTrace.tla).  Payload echo through the TLS stream is
differential (bytes written == bytes read back)."""
import collections
import json
import os
from concurrent.futures import ThreadPoolExecutor

import vlib

MOD = "connect/Connect.tla"
TMOD = "connect/ConnectTrace.tla"
TCFG = "Trace_C19.cfg"
RES = ["C19_ResolutionPrecedence", "C19_OrderedFallback", "C19_ContactedIsPrefix"]
NEGS = {"NEG_C19_ResolveEvenIfPreset.cfg": RES,
        "NEG_C19_IpLiteralGoesToResolver.cfg": RES,
        "NEG_C19_IpLiteralLosesPort.cfg": RES,
        "NEG_C19_EmptyIsOk.cfg": RES,
        "NEG_C19_DialStopsAtFirstFailure.cfg": ["C19_OrderedFallback", "C19_ContactedIsPrefix"],
        "NEG_C19_DialReturnsFirstError.cfg": ["C19_OrderedFallback"],
        "NEG_C19_DialContactsAll.cfg": ["C19_OrderedFallback", "C19_ContactedIsPrefix"],
        "NEG_C19_TlsSkipsNameCheck.cfg": ["C19_TlsHostnameVerified"],
        "NEG_C19_TlsFixedName.cfg": ["C19_TlsHostnameVerified"]}
UP = {"up", "up6", "pu4", "pu6", "tls"}


def signature(inp, obs):
    """class of a failing call: service (+ TLS library) and what was observed"""
    svc = inp.get("svc", "?")
    what = "%s%s" % (obs.get("res", "?"), ("-" + obs["variant"]) if obs.get("variant") else "")
    if svc == "tls":
        return "c19:tls:%s:%s" % (inp.get("lib"), what)
    return "c19:%s:%s" % (svc, what)


def describe(inp):
    if inp["svc"] == "tls":
        return "%s TLS connector, host %r%s, issuer %s" % (
            inp["lib"], inp["name"]["text"], " with :port" if inp["hostPort"] != "none" else "",
            "trusted" if inp["trusted"] else "untrusted")
    return "%s: host=%s hostPort=%s set_port=%s pre-set(%s)=%s resolver=%s%s bind=%s" % (
        inp["svc"], inp["hostKind"], inp["hostPort"], inp["setPort"], inp["via"], inp["preset"], inp["resolver"],
        inp["rlist"] if inp["resolver"] == "ok" else "", inp["bind"])


def nontrivial(v):
    """the vector exercises a clause: fallback past a failing first address, a precedence decision, or a
    handshake that must be refused"""
    inp, exp = v["inp"], v["allowed"][0]
    if inp["svc"] == "tls":
        return exp["res"] == "err"
    dial = exp.get("dial", [])
    fallback = inp["svc"] in ("tcp", "connector") and len(dial) >= 2 and dial[0]["fl"] not in UP
    precedence = inp["svc"] in ("resolver", "connector") and (
        bool(inp["preset"]) or inp["hostKind"] == "ip" or inp["resolver"] in ("empty", "err"))
    unresolved = inp["svc"] == "tcp" and not inp["preset"]
    return fallback or precedence or unresolved


def _vectors(stdout):
    groups = collections.OrderedDict()
    for v in vlib.tagged_json(stdout, "VEC"):
        k = json.dumps(v["inp"], sort_keys=True)
        g = groups.setdefault(k, {"inp": v["inp"], "allowed": []})
        if v["exp"] not in g["allowed"]:
            g["allowed"].append(v["exp"])
    return list(groups.values())


def _drive(ctx, vecs, tag, extra=(), seed=None):
    vfile = os.path.join(ctx.workdir, "%s-vectors.ndjson" % tag)
    tfile = os.path.join(ctx.workdir, "%s-trace.ndjson" % tag)
    vlib.write_ndjson(vfile, vecs)
    r = vlib.run_harness("vconnect", ["vectors", "--schedules", vfile, "--trace", tfile, "--seed", ctx.seed if seed is None else seed] + list(extra),
                         timeout=1200)
    try:
        summ = json.loads(r.stdout.strip().splitlines()[-1])
    except Exception:
        raise vlib.ToolError("vconnect printed no summary")
    if summ["runs"] != len(vecs):
        raise vlib.ToolError("vconnect read %d of %d vectors" % (summ["runs"], len(vecs)))
    if summ["leftover_accepts"]:
        # arrivals after a call are attributed to that call by the driver (and judged); only connections that
        # were there before the first call cannot belong to any vector
        raise vlib.ToolError("%d connections arrived before the first call: not attributable to any vector" %
                             summ["leftover_accepts"])
    return summ, tfile


def _judge(ctx, vecs, summ, tfile, tag):
    """driver verdicts + TLC's verdict on every recorded observation"""
    for m in summ["first_mismatches"]:
        v = vecs[m["run"]]
        ctx.violation(signature(v["inp"], m["observed"]),
                      "%s: observed %s (%s); the spec allows %s" % (
                          describe(v["inp"]), json.dumps(m["observed"]), json.dumps(m.get("raw", {}))[:300],
                          json.dumps(v["allowed"])),
                      {"vector": v, "observed": m["observed"], "raw": m.get("raw"), "args": summ["env"].get("host_type"),
                       "seed": summ["env"].get("seed")})
    recs = vlib.read_ndjson(tfile)
    raws = {}
    for r in recs:
        if "raw" in r:
            raws[r["i"]] = r.pop("raw")
    runs = vlib.split_runs(recs)
    accepted, rejects = vlib.validate_runs(TMOD, TCFG, runs, ctx.workdir, tag=tag, max_rejects=8)
    ctx.cov["traces_validated_against_impl"] += accepted
    for (ri, pos, pred) in rejects:
        rec = next((r for r in runs[ri] if r.get("ev") == "call"), None)
        if rec is None:
            raise vlib.ToolError("TLC rejected a run without a call record")
        ctx.violation(signature(rec["inp"], rec["obs"]),
                      "TLC: %s is false on the recorded call: %s: observed %s (%s)" % (
                          pred or "C19_Holds", describe(rec["inp"]), json.dumps(rec["obs"]),
                          json.dumps(raws.get(rec["i"], {}))[:300]),
                      {"vector": vecs[rec["i"]], "observed": rec["obs"], "raw": raws.get(rec["i"]), "predicate": pred,
                       "args": summ["env"].get("host_type"), "seed": summ["env"].get("seed")})
    flagged = {m["run"] for m in summ["first_mismatches"]}
    if summ["mismatches"] and not rejects:
        raise vlib.ToolError("driver flagged %d calls but TLC accepted all observations: oracle disagreement" % summ["mismatches"])
    # informational: which port wins when the host string carries one and set_port was called too (the
    # property allows either; the pinned code lets the host string win)
    pp = ctx.cov.setdefault("port_precedence_observed", {"host_string_wins": 0, "set_port_wins": 0})
    for run in runs:
        rec = next((r for r in run if r.get("ev") == "call"), None)
        if rec and rec["inp"]["svc"] != "tls" and "none" not in (rec["inp"]["hostPort"], rec["inp"]["setPort"]) \
                and rec["inp"]["hostPort"] != rec["inp"]["setPort"]:
            if rec["obs"]["rport"] == rec["inp"]["hostPort"]:
                pp["host_string_wins"] += 1
            elif rec["obs"]["rport"] == rec["inp"]["setPort"]:
                pp["set_port_wins"] += 1
    return runs, accepted, rejects, flagged


def run(ctx):
    vlib.cargo_build(["vconnect"])
    cfg = "MC_C19_quick.cfg" if ctx.quick else "MC_C19_thorough.cfg"
    res = ctx.model_check(MOD, cfg, workers=4, timeout=900, coverage=True)
    vlib.require_ok(res, cfg)
    ctx.add_tlc(cfg, res, "exhaustive over all input vectors; machine satisfies C19_Holds at every final state; vectors printed")
    for a in ("Resolve", "Dial", "Tls"):
        if res.coverage.get(a, (0, 0))[1] == 0:
            raise vlib.ToolError("action %s of Connect.tla was never taken" % a)
    with ThreadPoolExecutor(max_workers=3) as ex:
        futs = [ex.submit(ctx.expect_neg, MOD, ncfg, exp, workers=1) for ncfg, exp in NEGS.items()]
        for f in futs:
            f.result()
    vecs = _vectors(res.stdout)
    if len(vecs) < 100:
        raise vlib.ToolError("TLC printed only %d vectors" % len(vecs))

    # all vectors with String hosts (thorough: also &'static str hosts); then the TLS vectors again with other
    # seeds: other payloads, and the other kind of server (tokio-rustls / tokio-openssl acceptor alternate by seed)
    tls = [v for v in vecs if v["inp"]["svc"] == "tls"]
    passes = [("c19", vecs, [], ctx.seed)]
    if not ctx.quick:
        passes = [("c19", vecs, ["--rounds", 6], ctx.seed), ("c19s", vecs, ["--host-type", "static", "--rounds", 6], ctx.seed)]
    for k in range(1, 2 if ctx.quick else 8):
        passes.append(("c19t%d" % k, tls, ["--rounds", 3 if ctx.quick else 8] +
                       (["--host-type", "static"] if k % 3 == 2 else []), ctx.seed + k))
    total_steps = 0
    sample_runs = None
    for tag, pvecs, extra, seed in passes:
        summ, tfile = _drive(ctx, pvecs, tag, extra, seed)
        runs, accepted, rejects, flagged = _judge(ctx, pvecs, summ, tfile, tag)
        total_steps += summ["steps"]
        sample_runs = sample_runs or runs
        ctx.cov.setdefault("driver", []).append({k: summ[k] for k in (
            "steps", "mismatches", "skipped", "by_svc", "ok_results", "panics", "late_accepts_attributed", "env")})
    if ctx.cov["port_precedence_observed"]["set_port_wins"]:
        print("DRIFT spec=Connect note=set_port-now-overrides-the-host-string-port (allowed by C19, differs from the "
              "pinned code)", flush=True)
    if total_steps == 0:
        raise vlib.ToolError("no vector could be executed in this environment")

    by_svc = collections.Counter(v["inp"]["svc"] for v in vecs)
    ctx.cov["evaluations"] = total_steps
    ctx.cov["distinct_nontrivial"] = sum(1 for v in vecs if nontrivial(v))
    ctx.cov["rule"] = ("vectors = every input of the four families enumerated by TLC from %s (address lists 0..MaxAddrs over "
                       "live/refused/unreachable and IPv6 entries, host kinds x host-string port x set_port x pre-set "
                       "constructor x resolver outcome x local bind; TLS: library x 13 names x issuer x port suffix), each "
                       "distinct; non-trivial = fallback past a failing first address (>= 2 addresses), or a precedence "
                       "decision (pre-set addresses / IP literal / empty or failing resolver / unresolved TCP input), or a "
                       "handshake the property says must fail" % cfg)
    ctx.cov["exhaustive"] = True
    ctx.cov["constants"] = {"cfg": cfg, "vectors": len(vecs), "by_service": dict(by_svc)}
    picks = [next(v for v in vecs if v["inp"]["svc"] == s and nontrivial(v)) for s in ("tcp", "resolver", "connector", "tls")]
    ctx.cov["samples"] += [{"vector": p} for p in picks]
    if sample_runs:
        ctx.cov["samples"].append({"observed_call_judged_by_TLC": sample_runs[len(sample_runs) // 2][1]})
    ctx.assumptions += [
        "the kernel's loopback behaviour is ground truth: a bound, never-polled listener completes handshakes; ports "
        "outside the ephemeral range that refused a probe stay closed; 255.255.255.255 fails fast with a different "
        "error than 'refused' (calibrated per run, the error identity is compared through that calibration)",
        "contact with a closed/unreachable address is not observable; 'no later address contacted' is observed on the "
        "live listeners' accept queues (drained and counted around every call; a connection that arrives after its call "
        "returned is attributed to that call and judged, the TLS servers count their own accepts)",
        "the default (getaddrinfo) resolver is exercised for 'localhost' only; certificate validation itself is the TLS "
        "library's; certificates are generated by rcgen per run; rustls 0.20-0.22 and native-tls connectors not driven",
        "payload echo through the TLS stream is differential (seeded random payloads, written == read back), not modelled",
        "'the request's port' = ConnectInfo::port(); when the host string carries a port and set_port was also called "
        "the property does not fix which wins (code: host string; set_port's doc comment reads the other way): either is "
        "allowed, but resolver arguments and the dialled IP literal must use the reported one; observed precedence is "
        "recorded in coverage.port_precedence_observed",
    ]


def replay(ctx, path):
    vlib.cargo_build(["vconnect"])
    rp = json.load(open(path))["replay"]
    vecs = [rp["vector"]]
    extra = ["--host-type", "static"] if rp.get("args") == "&'static str" else []
    summ, tfile = _drive(ctx, vecs, "c19-replay", extra, rp.get("seed"))
    if summ["steps"] != 1:
        raise vlib.ToolError("the vector cannot be executed in this environment: %s" % json.dumps(summ["skipped"]))
    runs, accepted, rejects, flagged = _judge(ctx, vecs, summ, tfile, "c19-replay")
    ctx.cov.update({"evaluations": 1, "distinct_nontrivial": 1, "states": 1, "transitions": 1,
                    "samples": [runs[0][1] if runs else vecs[0]],
                    "rule": "replay of one recorded vector"})
