"""C15 — LinesCodec frames lines exactly.
Spec: spec/codec/LinesCodec.tla (decode / decode_eof / encode transcribed from lines.rs + the independent
reference RefLines) and spec/codec/Lines.tla (ASSUMEs over the whole bounded domain, vector emission).
Binding: every TLC vector (all byte strings <= N over {a,CR,LF,C3,A9,FF}; all <=3-tuples of valid strings for
the round trip) is replayed on the real LinesCodec::decode/decode_eof/encode; a sample of the *observed*
outputs is validated by TLC against LinesTrace; random longer strings go through the Rust reference, which is
itself cross-checked against every TLC vector."""
import json
import os
import re

import vlib

MOD = "codec/Lines.tla"
TMOD = "codec/LinesTrace.tla"
NEGS = {"NEG_C15_StripAllCR.cfg": "C15_Decode", "NEG_C15_SplitAtCR.cfg": "C15_Decode",
        "NEG_C15_DropFinal.cfg": "C15_Decode", "NEG_C15_LossyUtf8.cfg": "C15_Decode",
        "NEG_C15_EncodeLFs.cfg": "C15_Encode", "NEG_C15_EofSkipsDecode.cfg": "C15_EofOnly"}


def assume_lines():
    """line number of every named ASSUME of Lines.tla"""
    out = {}
    with open(os.path.join(vlib.SPEC, MOD)) as f:
        for i, line in enumerate(f, 1):
            m = re.match(r"ASSUME (C15_\w+) ==", line)
            if m:
                out[i] = m.group(1)
    return out


def violated_assumption(res):
    names = assume_lines()
    for line in res.error_lines:
        m = re.match(r"Error: Assumption line (\d+),", line)
        if m:
            return names.get(int(m.group(1)), "assumption")
    return res.violated


def expect_neg(ctx, cfg, expected):
    res = vlib.run_tlc(MOD, cfg, workers=1, timeout=300, tag="C15-" + cfg[:-4])
    got = violated_assumption(res)
    if got != expected:
        print("\n".join(res.stdout.splitlines()[-15:]))
        raise vlib.ToolError("NEG config %s: expected assumption %s to fail, got %s" % (cfg, expected, got))
    vlib.log("NEG %s: rejected as expected (%s)" % (cfg, got))
    ctx.cov["neg_configs_rejected"].append({"cfg": cfg, "violated": got})


def signature(rec):
    return "lines:%s" % rec.get("ev", rec.get("t"))


def nontrivial(v):
    """a vector is non-trivial if its input exercises a delimiter, a CR or a non-ASCII byte"""
    data = v["in"] if v["t"] == "vec" else v["enc"][:-1]
    return any(b != 97 for b in data)


def run_driver(ctx, vectors, nrand, tag):
    vfile = os.path.join(ctx.workdir, "%s-vectors.ndjson" % tag)
    tfile = os.path.join(ctx.workdir, "%s-trace.ndjson" % tag)
    vlib.write_ndjson(vfile, vectors)
    r = vlib.run_harness("vcodec", ["lines", "--vectors", vfile, "--trace", tfile, "--random", nrand,
                                    "--seed", ctx.seed])
    summ = json.loads(r.stdout.strip().splitlines()[-1])
    if summ["ref_mismatches"]:
        raise vlib.ToolError("the driver's Rust reference disagrees with the TLC vectors: %s" % json.dumps(
            summ["first_ref_mismatches"][:1]))
    return summ, vlib.read_ndjson(tfile)


def tlc_validate(ctx, recs, tag):
    runs = [[{"ev": "reset"}, r] for r in recs]
    accepted, rejects = vlib.validate_runs(TMOD, "Trace_C15.cfg", runs, ctx.workdir, tag=tag)
    ctx.cov["traces_validated_against_impl"] += accepted
    for (ri, pos, pred) in rejects:
        rec = runs[ri][1]
        kind = "vec" if rec["ev"] == "vec" else "rt"
        exp = {"t": kind, "in": rec.get("in"), "items": rec.get("items")}
        ctx.violation(signature(rec), "TLC rejects the output observed on the real LinesCodec: %s" % json.dumps(rec),
                      {"mode": "lines", "vector": exp, "observed": rec})
    return accepted, rejects


def run(ctx):
    vlib.cargo_build(["vcodec"])
    cfg = "MC_C15_quick.cfg" if ctx.quick else "MC_C15_thorough.cfg"
    res = ctx.model_check(MOD, cfg, workers=1, timeout=1500, xmx="8g")
    vlib.require_ok(res, cfg)
    counts = next(vlib.tagged_json(res.stdout, "COUNTS"))
    vectors = [dict(v, t="vec") for v in vlib.tagged_json(res.stdout, "VEC")]
    rts = [dict(v, t="rt") for v in vlib.tagged_json(res.stdout, "RT")]
    if len(vectors) != counts["strings"] or len(rts) != counts["tuples"]:
        raise vlib.ToolError("TLC emitted %d/%d vectors for %s" % (len(vectors), len(rts), counts))
    ctx.add_tlc(cfg, res, "ASSUME-level enumeration: %d byte strings, %d round-trip tuples (the state graph is a dummy)"
                % (len(vectors), len(rts)))
    res.stdout = ""
    for ncfg, exp in NEGS.items():
        expect_neg(ctx, ncfg, exp)
    allv = vectors + rts
    nrand = 3000 if ctx.quick else 60000
    summ, recs = run_driver(ctx, allv, nrand, "c15")
    for m in summ["first_mismatches"][:10]:
        ctx.violation(signature(m["observed"]), "real LinesCodec gives %s, the spec (= reference) gives %s" % (
            json.dumps(m["observed"]), json.dumps(m["expected"])), {"mode": "lines", "vector": m["expected"]})
    # TLC validates a seeded sample of the *observed* records (all random ones emitted + flagged ones)
    obs = [r for r in recs if r.get("ev") != "reset"]
    flagged = [m["observed"] for m in summ["first_mismatches"][:10]]
    rand_recs = [r for r in obs if r.get("random")]
    for r in rand_recs + flagged:
        r.pop("random", None)
    pick = vlib.sample(ctx.rng, [r for r in obs if not r.get("random")], 4000 if ctx.quick else 20000)
    accepted, rejects = tlc_validate(ctx, flagged + pick + rand_recs, "c15")
    if summ["mismatches"] and not rejects:
        raise vlib.ToolError("driver flagged %d vectors but TLC accepted the observations" % summ["mismatches"])
    ctx.cov["evaluations"] = summ["vec"] + summ["rt"] + summ["random"]
    ctx.cov["vectors_decode"] = summ["vec"]
    ctx.cov["vectors_roundtrip"] = summ["rt"]
    ctx.cov["random_long_cases"] = summ["random"]
    ctx.cov["driver_mismatches"] = summ["mismatches"]
    ctx.cov["distinct_nontrivial"] = sum(1 for v in allv if nontrivial(v))
    ctx.cov["exhaustive"] = True
    ctx.cov["constants"] = counts
    ctx.cov["rule"] = ("vectors = every byte string of length <= N over {a,CR,LF,C3,A9,FF} and every tuple of <= 3 valid-UTF-8 "
                       "strings of length <= RtLen, enumerated by TLC (distinct by construction); non-trivial = the bytes "
                       "contain something other than 'a' (a delimiter, CR or non-ASCII byte); random_long_cases are seeded "
                       "strings of 8..400 bytes judged by the Rust reference that was cross-checked on every TLC vector "
                       "(counted in evaluations, not in distinct_nontrivial)")
    ctx.cov["samples"] += [vectors[len(vectors) // 2], rts[len(rts) // 2], {"observed": pick[0]}]
    ctx.assumptions += ["TLC evaluates the ASSUMEs of Lines.tla over the whole bounded domain; states/transitions of the dummy "
                        "state graph are not the measure of coverage, `evaluations` is",
                        "UTF-8 validity is modelled on the 6-byte alphabet only (ASCII + the scalar C3 A9)"]


def replay(ctx, path):
    """re-executes the vector of a replay file on the real codec; TLC judges the observation"""
    vlib.cargo_build(["vcodec"])
    rp = json.load(open(path))["replay"]
    v = dict(rp["vector"])
    if v["t"] == "vec":
        v = {"t": "vec", "in": v["in"], "dec": v.get("dec", []), "eof": v.get("eof", [])}
    else:
        v = {"t": "rt", "items": v["items"], "enc": v.get("enc", []), "dec": v.get("dec", [])}
    vfile = os.path.join(ctx.workdir, "replay-vectors.ndjson")
    tfile = os.path.join(ctx.workdir, "replay-trace.ndjson")
    vlib.write_ndjson(vfile, [v])
    vlib.run_harness("vcodec", ["lines", "--vectors", vfile, "--trace", tfile])
    obs = [r for r in vlib.read_ndjson(tfile) if r.get("ev") != "reset"]
    tlc_validate(ctx, obs, "replay")
    ctx.cov.update({"evaluations": 1, "distinct_nontrivial": 1, "states": 1, "transitions": 1, "samples": obs[:1]})
