"""C09 — System stop delivers the exit code and stops every arbiter (actix-rt).
Also holds the machinery shared with C10 (same spec, same driver).

Spec: spec/rt/ActixRt.tla (design model, TLC exhaustive + liveness + NEG variants) whose observable
history and property predicates live in spec/rt/RtProps.tla.  Binding (impl -> spec): the real-thread
driver harness/rt (`vrt`) executes seeded scenarios enumerated from the property's quantifier through
the public API of actix-rt and records call intervals / task starts / joins / run results under one
mutex; spec/rt/ActixRtTrace.tla applies the same history updates as the model to every record and TLC
evaluates the same C09_* / C10_* predicates on every prefix (predicate mode)."""
import itertools
import json
import os
import random
import sys

import vlib

MOD = "rt/ActixRt.tla"
TMOD = "rt/ActixRtTrace.tla"
SHAPES = ["early", "dropped", "running", "busy"]
FROMS = ["sys", "arb", "foreign"]

NEGS_C09 = {"NEG_C09_SecondStopOverwritesCode.cfg": ["C09_FirstCodeWins"],
            "NEG_C09_ExitSkipsLastArbiter.cfg": ["C09_AllRegisteredStop"],
            "NEG_C09_CodeBeforeStoppingArbiters.cfg": ["C09_AllRegisteredStop"],
            "NEG_C09_DeregWrongId.cfg": ["C09_AllRegisteredStop", "C09_EarlyStoppedDeregistered"],
            "NEG_C09_DeregWrongId_early.cfg": ["C09_EarlyStoppedDeregistered"],
            "NEG_C09_RunIgnoresNonZero.cfg": ["C09_RunErrOnNonZero"],
            "NEG_C09_RegisterAfterReady.cfg": ["C09_AllRegisteredStop"],
            "NEG_C09_live_ExitSkipsLastArbiter.cfg": ["temporal"]}


# --------------------------------------------------------------------------------------------
# scenarios (the quantifier of C09 / C10, enumerated; command sequences and timing seeded)
# --------------------------------------------------------------------------------------------
def shape_space():
    """0..3 arbiters each {early, dropped, running, busy} x stop from {sys, arb, foreign} x first code {0, 7}
    x {one, two} stop calls."""
    out = []
    for n in range(4):
        for shapes in itertools.product(SHAPES, repeat=n):
            for frm in FROMS:
                for code in (0, 7):
                    for nstops in (1, 2):
                        out.append((shapes, frm, code, nstops))
    return out


def gen_cmd(rng, narb, allow_stop=True, sys_target=True):
    lo = 0 if sys_target else 1
    a = rng.randint(lo, narb) if narb >= lo else 0
    x = rng.random()
    if allow_stop and x < 0.14 and (a != 0 or rng.random() < 0.2):
        return {"arb": a, "op": "stop"}
    if x < 0.57:
        return {"arb": a, "op": "spawn", "body": rng.choice(["done", "done", "yield", "pend", "panic"])}
    body = rng.choice(["done", "done", "done", "panic", "busy"])
    c = {"arb": a, "op": "spawn_fn", "body": body}
    if body == "busy":
        c["ms"] = rng.randint(1, 3)
    return c


def gen_scenario(rng, sid, combo, flavour):
    shapes, frm, code, nstops = combo
    n = len(shapes)
    arbs = []
    for i, sh in enumerate(shapes):
        ncmd = rng.randint(0, 2) if flavour == "c09" else rng.randint(0, 4)
        owner = []
        for _ in range(ncmd):
            c = gen_cmd(rng, n, allow_stop=(flavour == "c10"))
            c["arb"] = i + 1
            owner.append(c)
        if sh == "busy":
            owner.append({"arb": i + 1, "op": "spawn_fn", "body": "busy", "ms": rng.randint(5, 25)})
        arbs.append({"shape": sh, "owner": owner, "post": rng.random() < 0.6})
    nsend = rng.randint(0, 2) if flavour == "c09" else rng.randint(1, 3)
    senders = []
    for _ in range(nsend):
        k = rng.randint(1, 3) if flavour == "c09" else rng.randint(2, 6)
        senders.append([gen_cmd(rng, n, allow_stop=(flavour == "c10" or rng.random() < 0.3)) for _ in range(k)])
    live = [i + 1 for i, sh in enumerate(shapes) if sh in ("running", "busy", "dropped")] or list(range(1, n + 1)) or [0]
    stops = [{"from": frm, "arb": rng.choice(live), "code": code, "delay": rng.randint(0, 3)}]
    if nstops == 2:
        other = [c for c in (0, 7, 9) if c != code]
        stops.append({"from": rng.choice(FROMS), "arb": rng.choice(live), "code": rng.choice(other),
                      "delay": rng.randint(0, 2)})
    # an extra arbiter created by a task on the system thread while the system runs: racing the stop (late), or
    # followed at once by a stop issued by its creator (fresh arbiter: registered before new() returned?)
    late = rng.random() < 0.2
    late_stop = rng.choice([0, 7]) if late and rng.random() < 0.5 else None
    return {"id": sid, "seed": rng.getrandbits(48), "api": rng.choice(["run", "run_with_code"]),
            "arbs": arbs, "senders": senders, "stops": stops, "concurrent": rng.random() < 0.5,
            "late": late, "late_stop": late_stop, "blockon": [rng.randint(-1000, 1000) for _ in range(rng.randint(0, 3))],
            "flavour": flavour}


def gen_scenarios(rng, count, flavour):
    space = shape_space()
    rng.shuffle(space)
    if flavour == "c10":
        # command-order clauses: mostly 1..2 arbiters, long command sequences
        space = [c for c in space if 1 <= len(c[0]) <= 2] * 3 + [c for c in space if len(c[0]) == 3]
        rng.shuffle(space)
    out = []
    for i in range(count):
        out.append(gen_scenario(rng, i, space[i % len(space)], flavour))
    return out


# --------------------------------------------------------------------------------------------
# driver + TLC trace check
# --------------------------------------------------------------------------------------------
def run_driver(ctx, scenarios, tag, watchdog_ms=10000, jobs=4):
    sfile = os.path.join(ctx.workdir, "%s-scenarios.ndjson" % tag)
    tfile = os.path.join(ctx.workdir, "%s-trace.ndjson" % tag)
    vlib.write_ndjson(sfile, scenarios)
    r = vlib.run_harness("vrt", ["run", "--schedules", sfile, "--trace", tfile, "--jobs", jobs,
                                 "--watchdog-ms", watchdog_ms, "--max-timeouts", 3], timeout=3600)
    summ = json.loads(r.stdout.strip().splitlines()[-1])
    runs = vlib.split_runs(vlib.read_ndjson(tfile))
    for run in runs:
        for rec in run:
            if rec.get("ev") == "DriverError":
                raise vlib.ToolError("vrt driver error: %s" % rec)
    return summ, runs


def nt_summaries(stdout):
    return [x["s"] for x in vlib.tagged_json(stdout, "NT")]


def validate(ctx, tcfg, runs, tag, chunk=1000):
    """TLC over the recorded runs (chunks of `chunk` runs per JVM).  Returns (accepted, rejects, summaries)
    with rejects = [(run_index, record_index, predicate)], summaries = [(run_index, antecedent summary)]."""
    accepted, rejects, summaries = 0, [], []
    for c0 in range(0, len(runs), chunk):
        part = runs[c0:c0 + chunk]
        remaining = list(range(len(part)))
        rounds = 0
        while remaining and len(rejects) < 5:
            rounds += 1
            path = os.path.join(ctx.workdir, "%s-%d-%d.ndjson" % (tag, c0, rounds))
            flat, bounds = [], []
            for ri in remaining:
                bounds.append((len(flat), ri))
                flat.extend(part[ri])
            vlib.write_ndjson(path, flat)
            v = vlib.validate_trace(TMOD, tcfg, path, timeout=1800, xmx="4g",
                                    tag="%s-%s-%d-%d-%d" % (ctx.prop, tag, os.getpid(), c0, rounds))
            ctx.cov["trace_tlc_states"] = ctx.cov.get("trace_tlc_states", 0) + v.tlc.distinct
            ctx.cov["trace_tlc_wall_s"] = round(ctx.cov.get("trace_tlc_wall_s", 0) + v.tlc.wall, 1)
            nts = nt_summaries(v.tlc.stdout)          # one per completed run, in order
            summaries += [(c0 + remaining[k], nts[k]) for k in range(min(len(nts), len(remaining)))]
            if v.accepted:
                accepted += len(remaining)
                break
            if v.violated is None:
                sys.stdout.write("\n".join(v.tlc.stdout.splitlines()[-30:]) + "\n")
                raise vlib.ToolError("trace spec stopped at record %d without a predicate violation" % v.matched)
            bad_pos = min(v.matched, len(flat) - 1)
            idx = 0
            for k, (start, ri) in enumerate(bounds):
                if start <= bad_pos:
                    idx = k
            start, bad = bounds[idx]
            rejects.append((c0 + bad, bad_pos - start, v.violated))
            accepted += idx
            remaining = [ri for (_, ri) in bounds[idx + 1:]]
    return accepted, rejects, summaries


def describe(run, pos):
    rec = run[min(pos, len(run) - 1)]
    return "record %d of the run: %s" % (pos, json.dumps(rec))


def model_checks(ctx, cfgs, negs, live=None, need_actions=()):
    if os.environ.get("VERIF_RT_SKIP_MC") == "1":
        # only for mutation experiments in a scratch copy (tools/scratch.sh): binding part alone
        vlib.log("VERIF_RT_SKIP_MC=1: model checking skipped (mutation experiment)")
        ctx.cov["model_checking_skipped"] = True
        return
    for k, (cfg, note) in enumerate(cfgs):
        res = ctx.model_check(MOD, cfg, workers=8, timeout=3000, xmx="10g", coverage=(k == 0))
        vlib.require_ok(res, cfg)
        ctx.add_tlc(cfg, res, note)
        if k == 0:
            # every action the predicates depend on must have been taken (DESIGN 3.1)
            need = ["CallAtomic", "ArbDequeue", "ArbStartTask", "ArbDeregister", "CtrlStep", "RunReturn"] + list(need_actions)
            missing = [a for a in need if sum(res.coverage.get(a, (0, 0))) == 0]
            if missing:
                raise vlib.ToolError("%s: actions never taken: %s" % (cfg, missing))
            ctx.cov["model_actions_taken"] = {a: res.coverage[a][1] for a in need}
    if live:
        res = ctx.model_check(MOD, live, workers=4, timeout=1200)
        vlib.require_ok(res, live)
        ctx.add_tlc(live, res, "liveness under weak fairness (no state constraint): every issued stop leads to "
                               "run returning and to the join of every arbiter created before it returning")
    for ncfg, exp in negs.items():
        ctx.expect_neg(MOD, ncfg, exp, workers=8)


# --------------------------------------------------------------------------------------------
# vacuity guard of the binding: hand-written histories that contradict one clause each must be rejected
# by the trace spec with that predicate (otherwise the trace check could not raise it: tool error)
# --------------------------------------------------------------------------------------------
def _t(*evs):
    pre = [{"ev": "reset"}, {"ev": "Thread", "role": "sys", "tid": 1}, {"ev": "SysUp", "sysid": 0},
           {"ev": "ArbNewEnd", "arb": 1}, {"ev": "ArbNewEnd", "arb": 2}, {"ev": "Thread", "role": "owner", "tid": 2}]
    recs = pre + list(evs) + [{"ev": "End"}]
    return [dict(r, seq=i, tid=r.get("tid", 2), run=0) for i, r in enumerate(recs)]


def _send(i, ok=True, arb=1):
    return [{"ev": "SendStart", "id": i, "arb": arb, "kind": "spawn", "body": "done", "via": "handle"},
            {"ev": "SendEnd", "id": i, "arb": arb, "ok": ok}]


def _start(i, tid=5, arb=1):
    return {"ev": "TaskStart", "id": i, "arb": arb, "cur": "ok", "sysid": 0, "tid": tid}


_STOP1 = [{"ev": "StopCallStart", "arb": 1}, {"ev": "StopCallEnd", "arb": 1, "ok": True}]


def _sys(code):
    return [{"ev": "SysStopStart", "code": code, "via": "foreign"}, {"ev": "SysStopEnd", "code": code}]


TAMPERED = {
    "C09": [
        ("C09_FirstCodeWins", _t(*_sys(7), *_sys(9), {"ev": "RunReturned", "api": "run_with_code", "ok": True, "code": 9})),
        ("C09_FirstCodeWins", _t(*_sys(7), {"ev": "RunTimeout"})),
        ("C09_RunErrOnNonZero", _t(*_sys(7), {"ev": "RunReturned", "api": "run", "ok": True, "code": 0})),
        ("C09_AllRegisteredStop", _t(*_sys(0), {"ev": "RunReturned", "api": "run", "ok": True, "code": 0},
                                     {"ev": "JoinReturned", "arb": 1}, {"ev": "JoinTimeout", "arb": 2, "phase": "sys"})),
        ("C09_EarlyStoppedDeregistered", _t(*_STOP1, {"ev": "JoinReturned", "arb": 1}, *_send(1, True), _start(1))),
    ],
    "C10": [
        ("C10_StartOrderRespectsSendOrder", _t(*_send(1), *_send(2), _start(2), _start(1))),
        ("C10_StartOrderRespectsSendOrder", _t(*_send(1), *_send(2), _start(2), *_STOP1, {"ev": "JoinReturned", "arb": 1})),
        ("C10_AtMostOnce", _t(*_send(1), _start(1), _start(1))),
        ("C10_OnOwnThread", _t(*_send(1), _start(1, tid=2))),
        ("C10_OnOwnThread", _t(*_send(1), *_send(2, arb=2), _start(1, tid=5), _start(2, tid=5, arb=2))),
        ("C10_NothingAfterStop", _t(*_STOP1, *_send(1), _start(1))),
        ("C10_SpawnFalseWhenGone", _t(*_STOP1, {"ev": "JoinReturned", "arb": 1}, *_send(1, True))),
        ("C10_JoinAfterLoopEnd", _t(*_send(1), *_STOP1, {"ev": "JoinReturned", "arb": 1}, _start(1))),
        ("C10_BlockOnOutput", _t({"ev": "BlockOn", "what": "x", "expected": 1, "got": 2})),
    ],
}


def binding_vacuity_guard(ctx, tcfg):
    cases = TAMPERED[ctx.prop]
    for k, (pred, run) in enumerate(cases):
        acc, rej, _ = validate(ctx, tcfg, [run], "guard%d" % k)
        got = rej[0][2] if rej else None
        if got != pred:
            raise vlib.ToolError("binding vacuity guard: hand-written history %d should violate %s, TLC says %s" % (k, pred, got))
    ctx.cov["binding_guard_histories_rejected"] = len(cases)
    vlib.log("binding guard: %d hand-written contradicting histories rejected by %s" % (len(cases), tcfg))



def flow(ctx, *, flavour, tcfg, nt_rule, nontrivial):
    vlib.cargo_build(["vrt"])
    for m in ("rt/RtProps.tla", MOD, TMOD):
        vlib.sany(m)
    binding_vacuity_guard(ctx, tcfg)
    count = 200 if ctx.quick else 5000
    scen = gen_scenarios(ctx.rng, count, flavour)
    summ, runs = run_driver(ctx, scen, flavour)
    if not runs:
        raise vlib.ToolError("driver recorded no run")
    accepted, rejects, summaries = validate(ctx, tcfg, runs, flavour)
    ctx.cov["traces_validated_against_impl"] += accepted
    ctx.cov["evaluations"] += len(runs)
    ctx.cov["impl_records"] = sum(len(r) for r in runs)
    ctx.cov["driver_runs_with_watchdog_expiry"] = summ["mismatches"]
    ctx.cov["driver_aborted_early"] = bool(summ.get("aborted"))
    def content(sc):
        return json.dumps({k: v for k, v in sc.items() if k not in ("id", "seed")}, sort_keys=True)
    ctx.cov["distinct_nontrivial"] += len({content(scen[runs[ri][0]["run"]]) for ri, s in summaries if nontrivial(s)})
    summaries = [s for _, s in summaries]
    ctx.cov["rule"] = nt_rule
    ctx.cov["antecedent_counts"] = {k: sum(1 for s in summaries if s.get(k) is True) for k in
                                    ("order", "started", "afterStop", "afterGone", "mustStop", "twoStops", "early")}
    ctx.cov["drift"] = {"send_false_before_any_stop": sum(1 for s in summaries if s.get("driftFalse")),
                        "explicit_stop_join_timeout": sum(1 for s in summaries if s.get("driftEarly"))}
    ctx.cov["scenario_shapes_covered"] = len({(tuple(a["shape"] for a in s["arbs"]), s["stops"][0]["from"],
                                               s["stops"][0]["code"], len(s["stops"])) for s in scen[:len(runs)]})
    ctx.cov["samples"].append({"scenario": scen[0], "observed_trace": runs[0][:60]})
    for (ri, pos, pred) in rejects:
        sid = runs[ri][0].get("run", ri)
        ctx.violation("rt:%s" % pred,
                      "predicate %s is false on the recorded history of run %d at %s" % (pred, sid, describe(runs[ri], pos)),
                      {"tcfg": tcfg, "predicate": pred, "scenario": scen[sid] if sid < len(scen) else None,
                       "first_failing_record": pos, "trace": runs[ri],
                       "note": "real-thread timing is not reproducible; replay re-validates this recorded trace"})
    if summ["mismatches"] and not rejects:
        # a watchdog expiry that no predicate of this property covers (e.g. C10 run seeing a C09 join timeout)
        ctx.cov["watchdog_expiries_not_judged_here"] = summ["first_mismatches"][:3]
    ctx.assumptions += [
        "sequence numbers are taken under one mutex: 'x ended before y started' is real-time precedence; "
        "nothing else about the order of concurrent calls is used",
        "watchdog 10 s: a join/run that has not returned by then is recorded as a timeout",
        "task identity of Arbiter::current() is observed through a marker task sent via that handle",
        "model: calls shrunk to their linearization point in the large configs (predicates are antitone in the "
        "interval width); MC_*_calls.cfg keeps the three-phase calls on small constants"]
    return scen, runs


def replay_common(ctx, path, tcfg_default):
    rp = json.load(open(path))["replay"]
    runs = [rp["trace"]]
    accepted, rejects, _ = validate(ctx, rp.get("tcfg", tcfg_default), runs, "replay")
    vlib.log("replay: re-validating the recorded trace (thread timing itself cannot be re-executed deterministically)")
    ctx.cov.update({"evaluations": 1, "distinct_nontrivial": 1, "states": 1, "transitions": 1,
                    "traces_validated_against_impl": accepted, "samples": [runs[0][:20]]})
    for (ri, pos, pred) in rejects:
        ctx.violation("rt:%s" % pred, "replay: predicate %s false at %s" % (pred, describe(runs[ri], pos)), rp)


# --------------------------------------------------------------------------------------------
def run(ctx):
    if ctx.quick:
        cfgs = [("MC_C09_quick.cfg", "exhaustive: 2 worker arbiters (1 created dynamically) + system arbiter, 3 calls, "
                                     "<= 2 stops from clients or tasks, codes {0,7}"),
                ("MC_C09_calls.cfg", "exhaustive: three-phase calls from 2 threads, join observed at any time")]
    else:
        cfgs = [("MC_C09_thorough.cfg", "exhaustive: 3 worker arbiters (1 created dynamically), 3 calls, busy tasks"),
                ("MC_C09_thorough2.cfg", "exhaustive: 2 worker arbiters both created dynamically, 4 calls, busy tasks"),
                ("MC_C09_quick.cfg", "exhaustive small"), ("MC_C09_calls.cfg", "three-phase calls")]
    model_checks(ctx, cfgs, NEGS_C09, live="LIVE_C09.cfg")
    ctx.cov["exhaustive"] = True
    ctx.cov["constants"] = {"model": "see tlc_runs", "driver": "0..3 arbiters x {early,dropped,running,busy} x stop from "
                            "{sys,arb,foreign} x codes {0,7,9} x {1,2} stops, run()/run_with_code()"}
    flow(ctx, flavour="c09", tcfg="Trace_C09.cfg",
         nt_rule="a run is non-trivial when a System stop was issued while at least one worker arbiter created before "
                 "it existed (mustStop non-empty), or two stop calls were issued, or an arbiter had stopped early; "
                 "counted by TLC from the recorded history at the End record of each run",
         nontrivial=lambda s: s["mustStop"] or s["twoStops"] or s["early"])


def replay(ctx, path):
    replay_common(ctx, path, "Trace_C09.cfg")
