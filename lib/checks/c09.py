"""C09 — System stop delivers the exit code and stops every arbiter (actix-rt).
Also holds the machinery shared with C10 (same spec, same driver).

Spec: spec/rt/ActixRt.tla (design model, TLC exhaustive + liveness + NEG variants) whose observable
history and property predicates live in spec/rt/RtProps.tla.  Binding (impl -> spec): the real-thread
driver harness/rt (`vrt`) executes seeded scenarios enumerated from the property's quantifier through
the public API of actix-rt and records call intervals / task starts / joins / run results under one
mutex; spec/rt/ActixRtTrace.tla applies the same history updates as the model to every record and TLC
evaluates the same C09_* / C10_* predicates on every prefix (predicate mode).

Scenario flavours (gen_scenarios): the enumerated shape space (c09 / c10) plus, on top, c09-pre / c09-burst (a backlog
of Register/Deregister messages in front of the system controller), c10-self (commands that send from the arbiter's
own thread through Arbiter::current()), c10-rounds (one OS thread hosts 2-3 Systems one after another; each System
is a run of its own in the trace), c09-twostop (stop, Arbiter::new, stop, all before run() is entered: the later stop
must reach the arbiter created between the two), c09-pinned (hundreds of short Systems with every thread pinned to ONE
CPU: Arbiter::new and System::stop at once by the same thread; makes the window between "ready" and "registered"
observable), c10-teardown (tasks that never complete are pending when their arbiter is stopped: their destructors
run between the end of the loop and the exit of the thread and send from there), c10-flood (40-100 commands queued on
ONE arbiter while its thread is blocked inside a task, or on the system arbiter before run() is entered; the arbiter is
released and every command must start within the watchdog: C10_AcceptedStarts), c10-overlap (two Systems alive at once
on one OS thread, the older one is stopped and run to completion first; then tasks on the younger System's arbiters
look at Arbiter::current() / System::current()) and c09-backlog (a worker arbiter is blocked inside a task with ~1100
commands queued behind it when the System stop is issued; it is released afterwards and its join must return) and
c10-stoprace (hundreds of short attempts, executed when nothing else runs: stop() from another thread while the arbiter's
loop is kept being polled by a yielding task, probe commands behind the stop must never start)."""
import concurrent.futures
import itertools
import json
import os
import random
import sys
import threading

import vlib

_COV_LOCK = threading.Lock()

MOD = "rt/ActixRt.tla"
TMOD = "rt/ActixRtTrace.tla"
SHAPES = ["early", "dropped", "running", "busy"]
FROMS = ["sys", "arb", "foreign"]
I32_MIN = -2147483648
# exit codes by class: the property speaks of "non-zero", and i32 codes may be negative
CODES = {"zero": [0], "pos": [7, 9, 1, 2147483647], "neg": [-1, -7, I32_MIN]}

NEGS_C09 = {"NEG_C09_SecondStopOverwritesCode.cfg": ["C09_FirstCodeWins"],
            "NEG_C09_ExitSkipsLastArbiter.cfg": ["C09_AllRegisteredStop"],
            "NEG_C09_CodeBeforeStoppingArbiters.cfg": ["C09_AllRegisteredStop"],
            "NEG_C09_DeregWrongId.cfg": ["C09_AllRegisteredStop", "C09_EarlyStoppedDeregistered"],
            "NEG_C09_DeregWrongId_early.cfg": ["C09_EarlyStoppedDeregistered"],
            "NEG_C09_RunIgnoresNonZero.cfg": ["C09_RunErrOnNonZero"],
            "NEG_C09_RunOkOnNegative.cfg": ["C09_RunErrOnNonZero"],
            "NEG_C09_live_CtrlBatchLosesWake.cfg": ["temporal"],
            "NEG_C09_RegisterAfterReady.cfg": ["C09_AllRegisteredStop"],
            "NEG_C09_LaterExitNoOp.cfg": ["C09_AllRegisteredStop"],
            "NEG_C09_live_ExitSkipsLastArbiter.cfg": ["temporal"],
            "NEG_C09_BoundedQueueLosesStop.cfg": ["C09_AllRegisteredStop"]}


# flavours whose scenarios reproduce a real watchdog expiry when they are run again (deterministic sequences, or
# hundreds of repetitions of a race): such a rejection is reported only if a re-run of the scenario is rejected too
CONFIRM_BY_RERUN = ("c09-twostop", "c09-pinned", "c09-backlog", "c09-sysarb", "c10-flood")
TIMEOUT_EVS = ("JoinTimeout", "GoneTimeout", "RunTimeout", "AwaitTimeout")


# --------------------------------------------------------------------------------------------
# scenarios (the quantifier of C09 / C10, enumerated; command sequences and timing seeded)
# --------------------------------------------------------------------------------------------
def shape_space():
    """0..3 arbiters each {early, dropped, running, busy} x stop from {sys, arb, foreign} x first code class
    {zero, positive, negative} x {one, two} stop calls."""
    out = []
    for n in range(4):
        for shapes in itertools.product(SHAPES, repeat=n):
            for frm in FROMS:
                for code in ("zero", "pos", "neg"):
                    for nstops in (1, 2):
                        out.append((shapes, frm, code, nstops))
    return out


def pick_code(rng, cls):
    c = CODES[cls]
    # mostly the first two of a class, the extremes now and then
    return c[0] if len(c) == 1 else (rng.choice(c[:2]) if rng.random() < 0.7 else rng.choice(c))


def gen_self_cmd(rng, a, op):
    """a command whose body sends from the arbiter's own thread through Arbiter::current()"""
    c = {"arb": a, "op": op, "carrier": rng.choice(["spawn", "spawn_fn"]), "kind": rng.choice(["spawn", "spawn_fn"])}
    if op == "self_spawn":
        c["nx"] = rng.randint(1, 3)
    return c


def gen_cmd(rng, narb, allow_stop=True, sys_target=True, self_send=False):
    lo = 0 if sys_target else 1
    a = rng.randint(lo, narb) if narb >= lo else 0
    x = rng.random()
    if self_send:
        y = rng.random()
        if y < 0.07:
            return gen_self_cmd(rng, a, "self_spawn")
        if y < 0.11 and allow_stop and (a != 0 or rng.random() < 0.2):
            return gen_self_cmd(rng, a, "self_stop_then_spawn")
    if allow_stop and x < 0.14 and (a != 0 or rng.random() < 0.2):
        return {"arb": a, "op": "stop"}
    if x < 0.57:
        return {"arb": a, "op": "spawn", "body": rng.choice(["done", "done", "yield", "pend", "panic"])}
    body = rng.choice(["done", "done", "done", "panic", "busy"])
    c = {"arb": a, "op": "spawn_fn", "body": body}
    if body == "busy":
        c["ms"] = rng.randint(1, 3)
    return c


def gen_scenario(rng, sid, combo, flavour):
    shapes, frm, code_cls, nstops = combo
    code = pick_code(rng, code_cls)
    n = len(shapes)
    arbs = []
    for i, sh in enumerate(shapes):
        ncmd = rng.randint(0, 2) if flavour == "c09" else rng.randint(0, 4)
        owner = []
        for _ in range(ncmd):
            c = gen_cmd(rng, n, allow_stop=(flavour == "c10"), self_send=(flavour == "c10"))
            c["arb"] = i + 1
            owner.append(c)
        if sh == "busy":
            owner.append({"arb": i + 1, "op": "spawn_fn", "body": "busy", "ms": rng.randint(5, 25)})
        arbs.append({"shape": sh, "owner": owner, "post": rng.random() < 0.6})
    nsend = rng.randint(0, 2) if flavour == "c09" else rng.randint(1, 3)
    senders = []
    for _ in range(nsend):
        k = rng.randint(1, 3) if flavour == "c09" else rng.randint(2, 6)
        senders.append([gen_cmd(rng, n, allow_stop=(flavour == "c10" or rng.random() < 0.3), self_send=(flavour == "c10"))
                        for _ in range(k)])
    live = [i + 1 for i, sh in enumerate(shapes) if sh in ("running", "busy", "dropped")] or list(range(1, n + 1)) or [0]
    stops = [{"from": frm, "arb": rng.choice(live), "code": code, "delay": rng.randint(0, 3)}]
    if nstops == 2:
        other = [c for c in (0, 7, 9, -1, -7, I32_MIN) if c != code]
        stops.append({"from": rng.choice(FROMS), "arb": rng.choice(live), "code": rng.choice(other),
                      "delay": rng.randint(0, 2)})
    # an extra arbiter created by a task on the system thread while the system runs: racing the stop (late), or
    # followed at once by a stop issued by its creator (fresh arbiter: registered before new() returned?)
    late = rng.random() < 0.2
    late_stop = rng.choice([0, 7, -7]) if late and rng.random() < 0.5 else None
    return {"id": sid, "seed": rng.getrandbits(48), "api": rng.choice(["run", "run_with_code"]),
            "arbs": arbs, "senders": senders, "stops": stops, "concurrent": rng.random() < 0.5,
            "late": late, "late_stop": late_stop, "blockon": [rng.randint(-1000, 1000) for _ in range(rng.randint(0, 3))],
            "flavour": flavour}


def gen_fates(rng, n):
    """mostly stopped-and-joined at once (Register + Deregister each), some kept running, some dropped"""
    return [rng.choice(["stop"] * 7 + ["keep"] * 2 + ["drop"]) for _ in range(n)]


def gen_backlog_scenario(rng, sid, k, which):
    """C09 with a backlog in front of the system controller.
    which = "pre":   10-30 arbiters are created, and mostly stopped / dropped, by the system thread BEFORE run() is
                     entered (their Register/Deregister messages are all buffered at the first poll of the controller);
    which = "burst": the system runs; a foreign thread blocks the system thread inside a task, creates and stops
                     8-16 arbiters meanwhile, then releases it.
    The stop then comes from each kind of thread in turn (task on the system thread, task on an arbiter, foreign
    thread; for "pre" also the system thread itself before run())."""
    shapes = tuple(rng.choice(["running", "running", "busy", "dropped", "early"]) for _ in range(rng.randint(0, 2)))
    frm = FROMS[k % 3]
    sc = gen_scenario(rng, sid, (shapes, frm, rng.choice(["zero", "pos", "neg"]), rng.choice([1, 1, 2])), "c09")
    sc["blockon"] = sc["blockon"] if which == "burst" else []
    # no command stops the system arbiter here: the blocking task / the stop task must be able to run on it
    for script in sc["senders"] + [a["owner"] for a in sc["arbs"]]:
        script[:] = [c for c in script if not (c["op"] == "stop" and c["arb"] == 0)]
    if which == "pre":
        fates = gen_fates(rng, rng.randint(10, 30))
        sc["pre"] = {"fates": fates, "interleave": rng.random() < 0.6}
        if k % 4 == 3:
            # the stop is issued by the system thread itself, before run() is entered
            sc["pre"]["stop_before_run"] = sc["stops"][0]["code"]
            sc["stops"] = sc["stops"][1:]
    else:
        sc["burst"] = {"fates": gen_fates(rng, rng.randint(8, 16)), "interleave": rng.random() < 0.7}
        # no arbiter-creating task with a stop of its own: the burst must happen before the first stop
        sc["late"], sc["late_stop"] = False, None
    sc["flavour"] = "c09-" + which
    return sc


def gen_twostop_scenario(rng, sid, k):
    """C09, two (or three) stop calls with arbiters created between them, everything BEFORE run() is entered and
    without the runner being polled in between: Exit, Register, Exit are all buffered when the controller is polled
    for the first time, so the later Exit is handled (in the same poll as the first one) and must stop the arbiter
    created before it was issued.  The first code still wins.  Stops from the system thread or a foreign thread."""
    shapes = tuple(rng.choice(["running", "running", "busy", "dropped", "early"]) for _ in range(rng.randint(0, 2)))
    sc = gen_scenario(rng, sid, (shapes, FROMS[k % 3], rng.choice(["zero", "pos", "neg"]), 1), "c09")
    for script in sc["senders"] + [a["owner"] for a in sc["arbs"]]:
        script[:] = [c for c in script if not (c["op"] == "stop" and c["arb"] == 0)]
    codes = [sc["stops"][0]["code"]] + rng.sample([0, 7, 9, -1, -7, 1], 2)
    def stop(i):
        return {"op": "stop", "code": codes[i], "from": "foreign" if rng.random() < 0.35 else "sys"}
    def new():
        fate = rng.choice(["keep", "keep", "drop", "busy", "pend"])
        return {"op": "new", "fate": fate, "ms": rng.randint(3, 15)}
    steps = [stop(0)] + [new() for _ in range(rng.randint(1, 2))] + [stop(1)]
    if k % 3 == 2:
        steps += [new(), stop(2)]
    if k % 4 == 1:
        steps = [new()] + steps
    sc["prerun"] = steps
    # every second scenario: one more stop while the system runs (it may or may not be handled: promises nothing)
    sc["stops"] = [dict(sc["stops"][0], code=rng.choice([0, 7, -7]))] if k % 2 else []
    sc["late"], sc["late_stop"] = False, None
    sc["flavour"] = "c09-twostop"
    return sc


def gen_sysarb_scenario(rng, sid, k):
    """C09 "already stopped arbiters do not disturb this": the SYSTEM arbiter itself is stopped early (a stop command on
    arbiter 0 from a foreign thread), the system loop turns, and only then - 40-80 ms later - the System is stopped from a
    foreign thread or from a task on a worker arbiter: run() returns the code and every arbiter stops all the same."""
    shapes = tuple(rng.choice(["running", "running", "busy"]) for _ in range(rng.randint(1, 2)))
    sc = gen_scenario(rng, sid, (shapes, ["foreign", "arb"][k % 2], ["zero", "pos", "neg"][k % 3], 1), "c09")
    for script in sc["senders"] + [a["owner"] for a in sc["arbs"]]:
        script[:] = [c for c in script if c.get("arb") != 0]
    sc["senders"] = [[{"arb": 0, "op": "stop"}]] + sc["senders"]
    sc["stops"][0]["delay"] = rng.randint(40, 80)
    sc["concurrent"] = False
    sc["late"], sc["late_stop"] = False, None
    sc["flavour"] = "c09-sysarb"
    return sc


def gen_pinned_scenario(rng, sid, rounds):
    """C09: `rounds` short Systems, every thread on ONE CPU (the driver pins a thread of its own, the threads created
    below it inherit the mask): 1-3 x Arbiter::new(), then System::stop at once by the same thread (system thread
    before run(), task on the system thread, or a foreign thread it spawns), run, join every arbiter."""
    return {"id": sid, "seed": rng.getrandbits(48), "pinned": {"rounds": rounds}, "arbs": [], "stops": [],
            "flavour": "c09-pinned"}


def gen_teardown_scenario(rng, sid, k):
    """C10: tasks that never complete are pending (started, or still queued) when their arbiter is stopped, by stop()
    or by a System stop, with other threads still sending: the destructors of the guards they own run between the end
    of the loop and the exit of the arbiter's thread and send from there."""
    shapes = tuple(rng.choice(["running", "running", "dropped", "early", "busy"]) for _ in range(rng.randint(1, 2)))
    sc = gen_scenario(rng, sid, (shapes, rng.choice(FROMS), "zero", 1), "c10")
    n = len(shapes)
    for i, a in enumerate(sc["arbs"]):
        pends = [{"arb": i + 1, "op": "spawn", "body": "pend", "echo": False} for _ in range(rng.randint(1, 3))]
        a["owner"] = pends[:1] + a["owner"] + pends[1:]
    sc["senders"] = sc["senders"][:2] + [[dict(gen_cmd(rng, n, allow_stop=False, sys_target=False), arb=rng.randint(1, n))
                                          for _ in range(rng.randint(3, 6))]]
    if k % 2:
        sc["senders"][-1].append({"arb": rng.randint(1, n), "op": "stop"})
    sc["stops"][0]["delay"] = rng.randint(1, 4)
    sc["flavour"] = "c10-teardown"
    return sc


def gen_self_scenario(rng, sid, k):
    """C10: commands that send from the arbiter's own thread, guaranteed present (on a worker arbiter and, every
    other scenario, on the system arbiter), next to ordinary traffic from other threads."""
    shapes = tuple(rng.choice(["running", "running", "busy", "early"]) for _ in range(rng.randint(1, 2)))
    sc = gen_scenario(rng, sid, (shapes, rng.choice(FROMS), "zero", 1), "c10")
    n = len(shapes)
    a = rng.randint(1, n)
    b = 0 if k % 2 == 0 else rng.randint(1, n)
    first = [gen_self_cmd(rng, a, "self_spawn"), gen_cmd(rng, n, allow_stop=False), gen_self_cmd(rng, b, "self_spawn")]
    second = [gen_cmd(rng, n, allow_stop=False) for _ in range(rng.randint(0, 2))] + [gen_self_cmd(rng, a, "self_stop_then_spawn")]
    sc["senders"] = [first, second] + sc["senders"][:1]
    sc["stops"][0]["delay"] = rng.randint(2, 4)
    sc["flavour"] = "c10-self"
    return sc


def gen_rounds_scenario(rng, sid):
    """C10: ONE OS thread hosts 2-3 Systems one after another (thread-local state of the earlier ones is still
    around).  In every System a marker command per arbiter (system arbiter and the workers created under it) records
    what Arbiter::current() / System::current() are inside it, before anything else happens."""
    rounds = []
    for r in range(rng.choice([2, 2, 3])):
        shapes = tuple(rng.choice(["running", "running", "busy", "early", "dropped"]) for _ in range(rng.randint(0, 2)))
        sc = gen_scenario(rng, sid, (shapes, rng.choice(FROMS), rng.choice(["zero", "pos", "neg"]), 1), "c10")
        for script in sc["senders"] + [a["owner"] for a in sc["arbs"]]:
            for c in script:
                if c["op"] != "stop":
                    c["echo"] = True
        sc.update({"probe": True, "late": False, "late_stop": None, "flavour": "c10-rounds"})
        rounds.append(sc)
    return {"id": sid, "seed": rng.getrandbits(48), "rounds": rounds, "flavour": "c10-rounds"}


def _no_stop_on(sc, arbs):
    """no command of the scripts stops one of `arbs` (stop / self_stop_then_spawn): their loops must go on"""
    for script in sc["senders"] + [x["owner"] for x in sc["arbs"]]:
        script[:] = [c for c in script if not (c["arb"] in arbs and c["op"] in ("stop", "self_stop_then_spawn"))]


def gen_flood_scenario(rng, sid, k):
    """C10: 40-100 commands (spawn_fn / spawn alternately) are queued on ONE arbiter that cannot take them at the moment:
    a foreign thread blocks the arbiter's thread inside a task first (k % 3 = 0: a worker arbiter, 1: the system arbiter),
    or the system thread queues them on the system arbiter before run() is entered (k % 3 = 2).  The arbiter is released;
    the driver waits under the watchdog until the whole burst has started, only then the System stop may come.  The first
    and the last few commands of the burst are recorded sends, the rest are sent without records of their own."""
    shapes = tuple(rng.choice(["running", "running", "busy", "dropped"]) for _ in range(rng.randint(1, 2)))
    sc = gen_scenario(rng, sid, (shapes, rng.choice(FROMS), "zero", 1), "c10")
    when = "prerun" if k % 3 == 2 else "blocked"
    a = 0 if k % 3 else rng.randint(1, len(shapes))
    _no_stop_on(sc, (a,))
    total, head, tail = rng.randint(40, 100), rng.randint(2, 6), rng.randint(4, 10)
    sc["flood"] = {"arb": a, "when": when, "head": head, "fill": total - head - tail, "tail": tail, "hold": False}
    sc["late"], sc["late_stop"] = False, None
    sc["flavour"] = "c10-flood"
    return sc


def gen_overlap_scenario(rng, sid):
    """C10: two Systems alive at once on ONE OS thread.  The hosting thread creates an older System, then the recorded
    one and its arbiters; the older one is stopped and run to completion on that thread; then the recorded System runs
    as usual.  A marker command per arbiter (system arbiter included) and every other command record what
    Arbiter::current() / System::current() are inside them.  One or two such Systems per thread."""
    rounds = []
    for _ in range(rng.choice([1, 1, 2])):
        shapes = tuple(rng.choice(["running", "running", "busy", "early", "dropped"]) for _ in range(rng.randint(0, 2)))
        sc = gen_scenario(rng, sid, (shapes, rng.choice(FROMS), rng.choice(["zero", "pos", "neg"]), 1), "c10")
        for script in sc["senders"] + [a["owner"] for a in sc["arbs"]]:
            for c in script:
                if c["op"] != "stop":
                    c["echo"] = True
        sc.update({"probe": True, "late": False, "late_stop": None, "flavour": "c10-overlap",
                   "other_system": {"code": rng.choice([0, 0, 7, -7]), "api": rng.choice(["run", "run_with_code"])}})
        rounds.append(sc)
    return {"id": sid, "seed": rng.getrandbits(48), "rounds": rounds, "flavour": "c10-overlap"}


def gen_arb_backlog_scenario(rng, sid, k):
    """C09: worker arbiter 1 is busy - its thread is blocked inside a task (latch handshake) - with 1050-1200 cheap
    commands queued behind that task when the System stop is issued (foreign thread, or a task on the system thread);
    it is released once the stop calls have returned.  It was created before the stop: its join must return."""
    shapes = ("running",) + tuple(rng.choice(["running", "busy", "dropped"]) for _ in range(rng.randint(0, 1)))
    sc = gen_scenario(rng, sid, (shapes, ["foreign", "sys"][k % 2], rng.choice(["zero", "pos", "neg"]), 1), "c09")
    _no_stop_on(sc, (0, 1))
    sc["flood"] = {"arb": 1, "when": "blocked", "head": 2, "fill": rng.randint(1050, 1200), "tail": 2, "hold": True}
    sc["late"], sc["late_stop"] = False, None
    sc["flavour"] = "c09-backlog"
    return sc


def gen_stoprace_scenario(rng, sid, rounds):
    """C10: `rounds` short attempts under one System, executed when nothing else runs, each a run of its own: a fresh
    arbiter whose loop is kept being polled by a task that yields on every turn (every other attempt it also sends a
    no-op command to its own arbiter per turn); after a short random spin its creator, or a foreign thread through a
    cloned handle, calls stop() and then sends 1-2 probe commands; join under a watchdog of 2 s.  A stop() that lands
    while the loop is in the middle of a poll must end the loop like any other: the probes never start."""
    return {"id": sid, "seed": rng.getrandbits(48), "stoprace": {"rounds": rounds, "join_ms": 2000}, "arbs": [], "stops": [],
            "flavour": "c10-stoprace"}


def extras(count, flavour):
    """how many scenarios of the special flavours are added on top of the `count` enumerated ones"""
    if flavour == "c09":
        return {"pre": max(12, count * 18 // 100), "burst": max(9, count * 12 // 100),
                "twostop": max(8, count * 4 // 100), "pinned": 2 if count <= 500 else 4,
                "backlog": 2 if count <= 500 else 8, "rounds": max(8, count * 4 // 100),
                "sysarb": 6 if count <= 500 else 24}
    return {"self": max(12, count * 12 // 100), "rounds": max(8, count * 10 // 100), "teardown": max(8, count * 4 // 100),
            "flood": max(6, count * 2 // 100), "overlap": max(6, count * 2 // 100),
            "stoprace": 2 if count <= 500 else 4}


def gen_scenarios(rng, count, flavour):
    space = shape_space()
    rng.shuffle(space)
    if flavour == "c10":
        # command-order clauses: mostly 1..2 arbiters, long command sequences
        space = [c for c in space if 1 <= len(c[0]) <= 2] * 3 + [c for c in space if len(c[0]) == 3]
        rng.shuffle(space)
    out = []
    for i in range(count):
        out.append(gen_scenario(rng, i, space[i % len(space)], flavour))
    ex = extras(count, flavour)
    special = []
    if flavour == "c09":
        special += [("pre", k) for k in range(ex["pre"])] + [("burst", k) for k in range(ex["burst"])]
        special += [("twostop", k) for k in range(ex["twostop"])] + [("pinned", k) for k in range(ex["pinned"])]
        special += [("backlog", k) for k in range(ex["backlog"])]
        # 2-3 Systems one after another on ONE thread: exit code, registry and stop fan-out of every later System
        special += [("rounds", k) for k in range(ex["rounds"])]
        special += [("sysarb", k) for k in range(ex["sysarb"])]
    else:
        special += [("self", k) for k in range(ex["self"])] + [("rounds", k) for k in range(ex["rounds"])]
        special += [("teardown", k) for k in range(ex["teardown"])]
        special += [("flood", k) for k in range(ex["flood"])] + [("overlap", k) for k in range(ex["overlap"])]
        special += [("stoprace", k) for k in range(ex["stoprace"])]
    for which, k in special:
        sid = len(out)
        if which in ("pre", "burst"):
            sc = gen_backlog_scenario(rng, sid, k, which)
        elif which == "self":
            sc = gen_self_scenario(rng, sid, k)
        elif which == "twostop":
            sc = gen_twostop_scenario(rng, sid, k)
        elif which == "pinned":
            sc = gen_pinned_scenario(rng, sid, 100 if count <= 500 else 1500)
        elif which == "teardown":
            sc = gen_teardown_scenario(rng, sid, k)
        elif which == "flood":
            sc = gen_flood_scenario(rng, sid, k)
        elif which == "overlap":
            sc = gen_overlap_scenario(rng, sid)
        elif which == "stoprace":
            sc = gen_stoprace_scenario(rng, sid, 400 if count <= 500 else 3000)
        elif which == "backlog":
            sc = gen_arb_backlog_scenario(rng, sid, k)
        elif which == "sysarb":
            sc = gen_sysarb_scenario(rng, sid, k)
        else:
            sc = gen_rounds_scenario(rng, sid)
        # spread them over the whole run list (the driver stops after a few runs with watchdog expiries)
        out.insert(rng.randint(0, len(out)), sc)
    for i, sc in enumerate(out):
        sc["id"] = i
    return out


# --------------------------------------------------------------------------------------------
# driver + TLC trace check
# --------------------------------------------------------------------------------------------
def run_driver(ctx, scenarios, tag, watchdog_ms=10000, jobs=4):
    sfile = os.path.join(ctx.workdir, "%s-scenarios.ndjson" % tag)
    tfile = os.path.join(ctx.workdir, "%s-trace.ndjson" % tag)
    vlib.write_ndjson(sfile, scenarios)
    r = vlib.run_harness("vrt", ["run", "--schedules", sfile, "--trace", tfile, "--jobs", jobs,
                                 "--watchdog-ms", watchdog_ms, "--max-timeouts", 3], timeout=3600)
    summ = json.loads(r.stdout.strip().splitlines()[-1])
    runs = vlib.split_runs(vlib.read_ndjson(tfile))
    for run in runs:
        for rec in run:
            if rec.get("ev") == "DriverError":
                raise vlib.ToolError("vrt driver error: %s" % rec)
    return summ, runs


def nt_summaries(stdout):
    return [x["s"] for x in vlib.tagged_json(stdout, "NT")]


def validate(ctx, tcfg, runs, tag, chunk=1000):
    """TLC over the recorded runs (chunks of `chunk` runs per JVM).  Returns (accepted, rejects, summaries)
    with rejects = [(run_index, record_index, predicate)], summaries = [(run_index, antecedent summary)]."""
    accepted, rejects, summaries = 0, [], []
    for c0 in range(0, len(runs), chunk):
        part = runs[c0:c0 + chunk]
        remaining = list(range(len(part)))
        rounds = 0
        while remaining and len(rejects) < 5:
            rounds += 1
            path = os.path.join(ctx.workdir, "%s-%d-%d.ndjson" % (tag, c0, rounds))
            flat, bounds = [], []
            for ri in remaining:
                bounds.append((len(flat), ri))
                flat.extend(part[ri])
            vlib.write_ndjson(path, flat)
            v = vlib.validate_trace(TMOD, tcfg, path, timeout=1800, xmx="4g",
                                    tag="%s-%s-%d-%d-%d" % (ctx.prop, tag, os.getpid(), c0, rounds))
            with _COV_LOCK:
                ctx.cov["trace_tlc_states"] = ctx.cov.get("trace_tlc_states", 0) + v.tlc.distinct
                ctx.cov["trace_tlc_wall_s"] = round(ctx.cov.get("trace_tlc_wall_s", 0) + v.tlc.wall, 1)
            nts = nt_summaries(v.tlc.stdout)          # one per completed run, in order
            summaries += [(c0 + remaining[k], nts[k]) for k in range(min(len(nts), len(remaining)))]
            if v.accepted:
                accepted += len(remaining)
                break
            if v.violated is None:
                sys.stdout.write("\n".join(v.tlc.stdout.splitlines()[-30:]) + "\n")
                raise vlib.ToolError("trace spec stopped at record %d without a predicate violation" % v.matched)
            bad_pos = min(v.matched, len(flat) - 1)
            idx = 0
            for k, (start, ri) in enumerate(bounds):
                if start <= bad_pos:
                    idx = k
            start, bad = bounds[idx]
            rejects.append((c0 + bad, bad_pos - start, v.violated))
            accepted += idx
            remaining = [ri for (_, ri) in bounds[idx + 1:]]
    return accepted, rejects, summaries


def describe(run, pos):
    rec = run[min(pos, len(run) - 1)]
    return "record %d of the run: %s" % (pos, json.dumps(rec))


def model_checks(ctx, cfgs, negs, live=None, need_actions=(), side=()):
    """`cfgs` are checked one after another with many TLC workers; `side` = small configs that must hold too, checked
    next to the NEG configs (a few TLC processes side by side)."""
    if os.environ.get("VERIF_RT_SKIP_MC") == "1":
        # only for mutation experiments in a scratch copy (tools/scratch.sh): binding part alone
        vlib.log("VERIF_RT_SKIP_MC=1: model checking skipped (mutation experiment)")
        ctx.cov["model_checking_skipped"] = True
        return
    for k, (cfg, note) in enumerate(cfgs):
        res = ctx.model_check(MOD, cfg, workers=8, timeout=3000, xmx="10g", coverage=(k == 0))
        vlib.require_ok(res, cfg)
        ctx.add_tlc(cfg, res, note)
        if k == 0:
            # every action the predicates depend on must have been taken (DESIGN 3.1)
            need = ["CallAtomic", "ArbDequeue", "ArbStartTask", "ArbDeregister", "CtrlStep", "RunReturn"] + list(need_actions)
            missing = [a for a in need if sum(res.coverage.get(a, (0, 0))) == 0]
            if missing:
                raise vlib.ToolError("%s: actions never taken: %s" % (cfg, missing))
            ctx.cov["model_actions_taken"] = {a: res.coverage[a][1] for a in need}
    if live:
        res = ctx.model_check(MOD, live, workers=4, timeout=1200)
        vlib.require_ok(res, live)
        ctx.add_tlc(live, res, "liveness under weak fairness (no state constraint): every issued stop leads to "
                               "run returning and to the join of every arbiter created before it returning")
    # the NEG configs are small and independent: a few TLC processes side by side
    def must_hold(cfg, note):
        res = ctx.model_check(MOD, cfg, workers=3, timeout=1200)
        vlib.require_ok(res, cfg)
        with _COV_LOCK:
            ctx.add_tlc(cfg, res, note)
    with concurrent.futures.ThreadPoolExecutor(max_workers=4) as pool:
        futs = [pool.submit(must_hold, cfg, note) for cfg, note in side]
        futs += [pool.submit(ctx.expect_neg, MOD, ncfg, exp, workers=3) for ncfg, exp in negs.items()]
        for f in futs:
            f.result()


# --------------------------------------------------------------------------------------------
# vacuity guard of the binding: hand-written histories that contradict one clause each must be rejected
# by the trace spec with that predicate (otherwise the trace check could not raise it: tool error)
# --------------------------------------------------------------------------------------------
def _t(*evs):
    pre = [{"ev": "reset"}, {"ev": "Thread", "role": "sys", "tid": 1}, {"ev": "SysUp", "sysid": 0},
           {"ev": "ArbNewEnd", "arb": 1}, {"ev": "ArbNewEnd", "arb": 2}, {"ev": "Thread", "role": "owner", "tid": 2}]
    recs = pre + list(evs) + [{"ev": "End"}]
    return [dict(r, seq=i, tid=r.get("tid", 2), run=0) for i, r in enumerate(recs)]


def _send(i, ok=True, arb=1):
    return [{"ev": "SendStart", "id": i, "arb": arb, "kind": "spawn", "body": "done", "via": "handle"},
            {"ev": "SendEnd", "id": i, "arb": arb, "ok": ok}]


def _start(i, tid=5, arb=1):
    return {"ev": "TaskStart", "id": i, "arb": arb, "cur": "ok", "sysid": 0, "tid": tid}


_STOP1 = [{"ev": "StopCallStart", "arb": 1}, {"ev": "StopCallEnd", "arb": 1, "ok": True}]


def _sys(code):
    return [{"ev": "SysStopStart", "code": code, "via": "foreign"}, {"ev": "SysStopEnd", "code": code}]


TAMPERED = {
    "C09": [
        ("C09_FirstCodeWins", _t(*_sys(7), *_sys(9), {"ev": "RunReturned", "api": "run_with_code", "ok": True, "code": 9})),
        ("C09_FirstCodeWins", _t(*_sys(7), {"ev": "RunTimeout"})),
        ("C09_RunErrOnNonZero", _t(*_sys(7), {"ev": "RunReturned", "api": "run", "ok": True, "code": 0})),
        ("C09_RunErrOnNonZero", _t(*_sys(-1), {"ev": "RunReturned", "api": "run", "ok": True, "code": 0, "coded": True})),
        ("C09_FirstCodeWins", _t(*_sys(I32_MIN), {"ev": "RunReturned", "api": "run", "ok": False, "code": -1, "coded": True})),
        ("C09_AllRegisteredStop", _t(*[{"ev": "ArbNewEnd", "arb": 100 + i} for i in range(1, 25)], *_sys(-7),
                                     {"ev": "RunReturned", "api": "run_with_code", "ok": True, "code": -7, "coded": True},
                                     *[{"ev": "JoinReturned", "arb": 100 + i} for i in range(1, 24)],
                                     {"ev": "JoinTimeout", "arb": 124, "phase": "sys"})),
        ("C09_AllRegisteredStop", _t(*_sys(0), {"ev": "RunReturned", "api": "run", "ok": True, "code": 0},
                                     {"ev": "JoinReturned", "arb": 1}, {"ev": "JoinTimeout", "arb": 2, "phase": "sys"})),
        ("C09_EarlyStoppedDeregistered", _t(*_STOP1, {"ev": "JoinReturned", "arb": 1}, *_send(1, True), _start(1))),
        # two stop calls before run() is entered, an arbiter created between them is not stopped
        ("C09_AllRegisteredStop", _t(*_sys(3), {"ev": "ArbNewEnd", "arb": 301}, *_sys(9), {"ev": "RunCall", "api": "run_with_code"},
                                     {"ev": "RunReturned", "api": "run_with_code", "ok": True, "code": 3, "coded": True},
                                     {"ev": "JoinReturned", "arb": 1}, {"ev": "JoinTimeout", "arb": 301, "phase": "sys"})),
        # ... the later stop call made by another thread, overlapping nothing
        ("C09_AllRegisteredStop", _t(*_sys(0), {"ev": "ArbNewEnd", "arb": 301}, *[dict(r, tid=7) for r in _sys(9)],
                                     {"ev": "RunCall", "api": "run"}, {"ev": "RunReturned", "api": "run", "ok": True, "code": 0},
                                     {"ev": "JoinTimeout", "arb": 301, "phase": "sys"})),
        # the limits of that clause (must be ACCEPTED): the later stop call returns after run() was entered / the runner
        # was polled between the two stop calls / the later call is still open when run() is entered
        (None, _t(*_sys(3), {"ev": "ArbNewEnd", "arb": 301}, {"ev": "RunCall", "api": "run_with_code"}, *_sys(9),
                  {"ev": "RunReturned", "api": "run_with_code", "ok": True, "code": 3, "coded": True},
                  {"ev": "JoinTimeout", "arb": 301, "phase": "late"})),
        (None, _t(*_sys(3), {"ev": "Polled", "by": "block_on"}, {"ev": "ArbNewEnd", "arb": 301}, *_sys(9),
                  {"ev": "RunCall", "api": "run_with_code"},
                  {"ev": "RunReturned", "api": "run_with_code", "ok": True, "code": 3, "coded": True},
                  {"ev": "JoinTimeout", "arb": 301, "phase": "late"})),
        (None, _t(*_sys(3), {"ev": "ArbNewEnd", "arb": 301}, dict(_sys(9)[0], tid=7), {"ev": "RunCall", "api": "run_with_code"},
                  dict(_sys(9)[1], tid=7), {"ev": "RunReturned", "api": "run_with_code", "ok": True, "code": 3, "coded": True},
                  {"ev": "JoinTimeout", "arb": 301, "phase": "late"})),
    ],
    "C10": [
        ("C10_StartOrderRespectsSendOrder", _t(*_send(1), *_send(2), _start(2), _start(1))),
        ("C10_StartOrderRespectsSendOrder", _t(*_send(1), *_send(2), _start(2), *_STOP1, {"ev": "JoinReturned", "arb": 1})),
        ("C10_AtMostOnce", _t(*_send(1), _start(1), _start(1))),
        ("C10_OnOwnThread", _t(*_send(1), _start(1, tid=2))),
        ("C10_OnOwnThread", _t(*_send(1), *_send(2, arb=2), _start(1, tid=5), _start(2, tid=5, arb=2))),
        ("C10_NothingAfterStop", _t(*_STOP1, *_send(1), _start(1))),
        # the same two clauses with the calls made on the arbiter's own thread (tid 5) through Arbiter::current()
        ("C10_NothingAfterStop", _t(*_send(1), _start(1), *[dict(r, tid=5, via="current") for r in _STOP1 + _send(2)],
                                    _start(2))),
        ("C10_StartOrderRespectsSendOrder", _t(*_send(1), _start(1), *_send(2), *[dict(r, tid=5, via="current") for r in _send(3)],
                                               _start(3), _start(2))),
        # Arbiter::current() inside a running task refuses a marker although nothing was stopped
        ("C10_OnOwnThread", _t(*_send(1), _start(1), {"ev": "EchoSend", "id": 1, "arb": 1, "ok": False, "tid": 5})),
        ("C10_SpawnFalseWhenGone", _t(*_STOP1, {"ev": "JoinReturned", "arb": 1}, *_send(1, True))),
        # the loop was seen to have ended (a task that never completes is being destroyed, on the arbiter's thread):
        # a send made from there / afterwards is accepted; a task starts afterwards
        ("C10_SpawnFalseWhenGone", _t(*_send(1), _start(1), *_STOP1,
                                      {"ev": "LoopEndSeen", "arb": 1, "id": 1, "started": True, "on_arbiter_thread": True, "tid": 5},
                                      *[dict(r, tid=5) for r in _send(2, True)])),
        ("C10_JoinAfterLoopEnd", _t(*_send(1), _start(1), *_send(2), *_STOP1,
                                    {"ev": "LoopEndSeen", "arb": 1, "id": 1, "started": True, "on_arbiter_thread": True, "tid": 5},
                                    _start(2))),
        (None, _t(*_send(1), _start(1), *_STOP1,
                  {"ev": "LoopEndSeen", "arb": 1, "id": 1, "started": True, "on_arbiter_thread": True, "tid": 5},
                  *[dict(r, tid=5) for r in _send(2, False)], {"ev": "JoinReturned", "arb": 1})),
        ("C10_JoinAfterLoopEnd", _t(*_send(1), *_STOP1, {"ev": "JoinReturned", "arb": 1}, _start(1))),
        ("C10_BlockOnOutput", _t({"ev": "BlockOn", "what": "x", "expected": 1, "got": 2})),
        # a task on the system arbiter finds no current System (sysid -1) / another System's id
        ("C10_OnOwnThread", _t(*_send(1, arb=0), dict(_start(1, tid=1, arb=0), sysid=-1))),
        ("C10_OnOwnThread", _t({"ev": "OtherSystem", "sysid": 7, "tid": 1}, *_send(1, arb=0), dict(_start(1, tid=1, arb=0), sysid=7))),
        # three commands are accepted by a live arbiter, the first starts, the driver's wait for the others expires
        ("C10_AcceptedStarts", _t(*_send(1), *_send(2), {"ev": "Filler", "arb": 1, "n": 40, "accepted": 40}, *_send(3), _start(1),
                                  {"ev": "AwaitStart", "arb": 1}, {"ev": "AwaitTimeout", "arb": 1})),
        ("C10_AcceptedStarts", _t(*_send(1, arb=0), {"ev": "RunCall", "api": "run"}, {"ev": "AwaitStart", "arb": 0},
                                  {"ev": "AwaitTimeout", "arb": 0})),
        # the limits of that clause (must be ACCEPTED): all started in time; a stop of some kind was issued meanwhile (the
        # loop may end first); a command accepted only after the wait began
        (None, _t(*_send(1), *_send(2), {"ev": "AwaitStart", "arb": 1}, _start(1), _start(2), {"ev": "AwaitReturned", "arb": 1})),
        (None, _t(*_send(1), *_send(2), {"ev": "AwaitStart", "arb": 1}, _start(1), *_STOP1, {"ev": "AwaitTimeout", "arb": 1})),
        (None, _t(*_send(1), {"ev": "AwaitStart", "arb": 1}, *_sys(0), {"ev": "AwaitTimeout", "arb": 1})),
        (None, _t(*_send(1), _start(1), {"ev": "AwaitStart", "arb": 1}, *_send(2), {"ev": "AwaitTimeout", "arb": 1})),
    ],
}


def binding_vacuity_guard(ctx, tcfg):
    cases = TAMPERED[ctx.prop]
    with concurrent.futures.ThreadPoolExecutor(max_workers=4) as pool:
        futs = [pool.submit(validate, ctx, tcfg, [run], "guard%d" % k) for k, (pred, run) in enumerate(cases)]
        results = [f.result() for f in futs]
    for k, ((pred, run), (acc, rej, _)) in enumerate(zip(cases, results)):
        got = rej[0][2] if rej else None
        if got != pred:
            raise vlib.ToolError("binding vacuity guard: hand-written history %d should %s, TLC says %s" % (
                k, "violate %s" % pred if pred else "be accepted (limit of a clause)", got))
    nrej = sum(1 for pred, _ in cases if pred)
    ctx.cov["binding_guard_histories_rejected"] = nrej
    ctx.cov["binding_guard_limit_histories_accepted"] = len(cases) - nrej
    vlib.log("binding guard: %d hand-written contradicting histories rejected by %s, %d histories at the limits of a "
             "clause accepted" % (nrej, tcfg, len(cases) - nrej))



def flow(ctx, *, flavour, tcfg, nt_rule, nontrivial):
    vlib.cargo_build(["vrt"])
    for m in ("rt/RtProps.tla", MOD, TMOD):
        vlib.sany(m)
    binding_vacuity_guard(ctx, tcfg)
    count = 200 if ctx.quick else 5000
    scen = gen_scenarios(ctx.rng, count, flavour)
    summ, runs = run_driver(ctx, scen, flavour)
    if not runs:
        raise vlib.ToolError("driver recorded no run")
    accepted, rejects, summaries = validate(ctx, tcfg, runs, flavour)
    # A rejection that rests on a watchdog expiry (real time) in a scenario that reproduces a real expiry when it is run
    # again is believed only if the re-run is rejected as well: a scheduling hiccup must not raise an alarm.
    confirmed, unconfirmed = [], 0
    for (ri, pos, pred) in rejects:
        sid = runs[ri][0].get("run", ri)
        sc = scen[sid] if sid < len(scen) else {}
        ev = runs[ri][min(pos, len(runs[ri]) - 1)].get("ev")
        if any(p == pred for (_, _, _, p) in confirmed):
            continue   # this predicate is reported already (one report per predicate): no need to spend a re-run
        if sc.get("flavour") in CONFIRM_BY_RERUN and ev in TIMEOUT_EVS:
            _, runs2 = run_driver(ctx, [sc], "%s-confirm%d" % (flavour, sid), jobs=1)
            _, rej2, _ = validate(ctx, tcfg, runs2, "%s-confirm%d" % (flavour, sid))
            if rej2:
                r2, pos2, pred2 = rej2[0]
                confirmed.append((sid, runs2[r2], pos2, pred2))
            else:
                unconfirmed += 1
                vlib.log("run %d (%s): %s at a %s record was not reproduced by a re-run of the scenario (ignored)" % (
                    sid, sc.get("flavour"), pred, ev))
        else:
            confirmed.append((sid, runs[ri], pos, pred))
    ctx.cov["rejections_not_reproduced_on_rerun"] = unconfirmed
    ctx.cov["traces_validated_against_impl"] += accepted
    ctx.cov["evaluations"] += len(runs)
    ctx.cov["impl_records"] = sum(len(r) for r in runs)
    ctx.cov["driver_runs_with_watchdog_expiry"] = summ["mismatches"]
    ctx.cov["driver_aborted_early"] = bool(summ.get("aborted"))
    def content(sc):
        return json.dumps({k: v for k, v in sc.items() if k not in ("id", "seed")}, sort_keys=True)
    ctx.cov["distinct_nontrivial"] += len({content(scen[runs[ri][0]["run"]]) for ri, s in summaries if nontrivial(s)})
    summaries = [s for _, s in summaries]
    ctx.cov["rule"] = nt_rule
    ctx.cov["antecedent_counts"] = {k: sum(1 for s in summaries if s.get(k) is True) for k in
                                    ("order", "started", "afterStop", "afterGone", "mustStop", "twoStops", "early",
                                     "selfSend", "echo", "negCode", "laterStop", "loopEndSeen", "awaited")}
    ctx.cov["max_arbiters_in_one_run"] = max([s.get("ncreated", 0) for s in summaries] or [0])
    ctx.cov["runs_with_10_or_more_arbiters"] = sum(1 for s in summaries if s.get("ncreated", 0) >= 10)
    executed = {r[0]["run"] for r in runs}
    fl = {}
    for i in executed:
        fl[scen[i]["flavour"]] = fl.get(scen[i]["flavour"], 0) + 1
    ctx.cov["scenarios_executed_by_flavour"] = fl
    ctx.cov["systems_hosted_after_another_on_one_thread"] = sum(1 for r in runs if r[0].get("round", 0) > 0)
    pinned = [r[0] for r in runs if "mini" in r[0]]
    ctx.cov["pinned_mini_rounds"] = len(pinned)
    ctx.cov["pinned_mini_rounds_really_on_one_cpu"] = sum(1 for r in pinned if r.get("pinned_cpu", -1) >= 0)
    if pinned and ctx.cov["pinned_mini_rounds_really_on_one_cpu"] < len(pinned):
        vlib.log("WARNING: sched_setaffinity failed, the 'pinned' rounds ran unpinned (the ready/registered race is "
                 "then much less likely to be exercised)")
    # the clauses added for later stop calls / the observed end of a loop must have been exercised by the driver
    fillers = [rec for r in runs for rec in r if rec.get("ev") == "Filler"]
    ctx.cov["largest_backlog_queued_on_one_arbiter"] = max([f["n"] for f in fillers] or [0])
    ctx.cov["systems_run_after_an_older_system_of_their_thread_exited"] = sum(
        1 for r in runs if any(rec.get("ev") == "OtherSystem" for rec in r))
    ctx.cov["stop_race_attempts"] = sum(1 for r in runs if "attempt" in r[0])
    if not rejects and not summ.get("aborted"):
        if flavour == "c10" and ctx.cov["stop_race_attempts"] < 100:
            raise vlib.ToolError("fewer than 100 stop-race attempts were recorded")
        for need in {"c09": ["laterStop"], "c10": ["loopEndSeen", "awaited"]}[flavour]:
            if ctx.cov["antecedent_counts"][need] == 0:
                raise vlib.ToolError("no recorded run exercised the antecedent '%s' (driver / scenario generator drifted)" % need)
        if flavour == "c09" and ctx.cov["largest_backlog_queued_on_one_arbiter"] < 1000:
            raise vlib.ToolError("no recorded run queued a backlog of >= 1000 commands on a blocked arbiter")
        if flavour == "c10" and ctx.cov["systems_run_after_an_older_system_of_their_thread_exited"] == 0:
            raise vlib.ToolError("no recorded run hosted a System next to an older one on the same thread")
    ctx.cov["drift"] = {"send_false_before_any_stop": sum(1 for s in summaries if s.get("driftFalse")),
                        "explicit_stop_join_timeout": sum(1 for s in summaries if s.get("driftEarly"))}
    def shape_key(s):
        st = s["stops"] or [{"from": "before_run", "code": s.get("pre", {}).get("stop_before_run")}]
        return (tuple(a["shape"] for a in s["arbs"]), st[0]["from"], st[0]["code"], len(s["stops"]))
    ctx.cov["scenario_shapes_covered"] = len({shape_key(r) for i in executed for r in scen[i].get("rounds", [scen[i]])})
    ctx.cov["samples"].append({"scenario": scen[0], "observed_trace": runs[0][:60]})
    for (sid, run, pos, pred) in confirmed:
        ctx.violation("rt:%s" % pred,
                      "predicate %s is false on the recorded history of run %d at %s" % (pred, sid, describe(run, pos)),
                      {"tcfg": tcfg, "predicate": pred, "scenario": scen[sid] if sid < len(scen) else None,
                       "first_failing_record": pos, "trace": run,
                       "note": "real-thread timing is not reproducible; replay re-validates this recorded trace"})
    if summ["mismatches"] and not rejects:
        # a watchdog expiry that no predicate of this property covers (e.g. C10 run seeing a C09 join timeout)
        ctx.cov["watchdog_expiries_not_judged_here"] = summ["first_mismatches"][:3]
    ctx.assumptions += [
        "sequence numbers are taken under one mutex: 'x ended before y started' is real-time precedence; "
        "nothing else about the order of concurrent calls is used",
        "watchdog 10 s: a join/run (or the wait for a burst of queued commands to start) that has not returned by then "
        "is recorded as a timeout; in the flavours c09-twostop / c09-pinned / c09-backlog / c10-flood such a rejection is "
        "reported only if a re-run of the scenario is rejected again",
        "an accepted command counts as stranded only if no stop of any kind was issued on its arbiter (and the System) "
        "until the watchdog period of the driver's wait had passed",
        "a later System stop call binds (arbiters created before it must stop) only when it returned before run() was "
        "entered and the runner was not polled since the first stop call started; fewer than 128 controller messages "
        "are buffered then (tokio's cooperative budget ends a poll of the controller after 128 messages)",
        "the destruction of a task that never completes on a worker arbiter is an observation of the end of that "
        "arbiter's loop (such a task is never aborted or cancelled by the driver)",
        "task identity of Arbiter::current() is observed through a marker task sent via that handle: it must be accepted "
        "while no stop of any kind was issued (the loop running the observing task is alive) and run on the same thread",
        "calls made on an arbiter's own thread through Arbiter::current() are recorded as ordinary intervals under the "
        "same mutex; the arbiter number logged for them is the one of the task that made the call",
        "several Systems hosted by one OS thread are judged one by one (a reset..End segment each)",
        "model: calls shrunk to their linearization point in the large configs (predicates are antitone in the "
        "interval width); MC_*_calls.cfg keeps the three-phase calls on small constants"]
    return scen, runs


def replay_common(ctx, path, tcfg_default):
    rp = json.load(open(path))["replay"]
    runs = [rp["trace"]]
    accepted, rejects, _ = validate(ctx, rp.get("tcfg", tcfg_default), runs, "replay")
    vlib.log("replay: re-validating the recorded trace (thread timing itself cannot be re-executed deterministically)")
    ctx.cov.update({"evaluations": 1, "distinct_nontrivial": 1, "states": 1, "transitions": 1,
                    "traces_validated_against_impl": accepted, "samples": [runs[0][:20]]})
    for (ri, pos, pred) in rejects:
        ctx.violation("rt:%s" % pred, "replay: predicate %s false at %s" % (pred, describe(runs[ri], pos)), rp)


# --------------------------------------------------------------------------------------------
def run(ctx):
    if ctx.quick:
        cfgs = [("MC_C09_quick.cfg", "exhaustive: 2 worker arbiters (1 created dynamically) + system arbiter, 3 calls, "
                                     "<= 2 stops from clients or tasks, codes {0,7}"),
                ("MC_C09_calls.cfg", "exhaustive: three-phase calls from 2 threads, join observed at any time")]
    else:
        cfgs = [("MC_C09_thorough.cfg", "exhaustive: 3 worker arbiters (1 created dynamically), 3 calls, busy tasks"),
                ("MC_C09_thorough2.cfg", "exhaustive: 2 worker arbiters both created dynamically, 4 calls, busy tasks"),
                ("MC_C09_quick.cfg", "exhaustive small"), ("MC_C09_calls.cfg", "three-phase calls"),
                ("MC_C09_idle_thorough.cfg", "calls before run() is entered, tasks may stop the System too")]
    side = [("MC_C09_idle.cfg", "exhaustive: 2 worker arbiters (1 created dynamically), 3 calls, <= 2 stops; everything may "
                                "happen before run() is entered (stop calls and arbiters created between them are buffered "
                                "in front of the controller)")]
    model_checks(ctx, cfgs, NEGS_C09, live="LIVE_C09.cfg", side=side)
    ctx.cov["exhaustive"] = True
    ctx.cov["constants"] = {"model": "see tlc_runs", "driver": "0..3 arbiters x {early,dropped,running,busy} x stop from "
                            "{sys,arb,foreign} x codes {0 | 7,9,1,i32::MAX | -1,-7,i32::MIN} x {1,2} stops, "
                            "run()/run_with_code(); plus backlog scenarios: 10-30 arbiters created/stopped/dropped by the "
                            "system thread before run() (stop also from the system thread before run()), and bursts of "
                            "8-16 arbiters created/stopped by a foreign thread while the system thread is blocked in a task; "
                            "two or three stop calls with arbiters created between them before run() is entered; "
                            "2 (thorough 8) runs with a worker arbiter blocked in a task and 1050-1200 commands queued on "
                            "it when the stop is issued; "
                            "2 x 100 (thorough 4 x 1500) short Systems pinned to one CPU: Arbiter::new and stop at once"}
    flow(ctx, flavour="c09", tcfg="Trace_C09.cfg",
         nt_rule="a run is non-trivial when a System stop was issued while at least one worker arbiter created before "
                 "it existed (mustStop non-empty), or two stop calls were issued, or an arbiter had stopped early; "
                 "counted by TLC from the recorded history at the End record of each run",
         nontrivial=lambda s: s["mustStop"] or s["twoStops"] or s["early"] or s.get("laterStop"))


def replay(ctx, path):
    replay_common(ctx, path, "Trace_C09.cfg")
