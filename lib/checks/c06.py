"""C06 — shutdown: graceful waits for connections, forced does not, stop always completes.
Specs: server/Worker.tla (worker side: reply value and time, drain) and server/ServerStop.tla (the protocol across
server command loop, accept thread and workers); binding: in-thread real worker under virtual time (deterministic) and
real Server instances on real threads (end-to-end, trace validated against ServerStop)."""
import workerflow

INV = ["T_C06w_TrueMeansIdle", "T_C06w_ForcedImmediate", "T_C06w_IdleImmediate", "T_C06w_GracefulWaits",
       "T_C06w_GracefulNotEarly"]
DESIGN = ["MC_worker_stop.cfg"]
THOROUGH = ["MC_worker_stop2.cfg", "MC_worker_stop_t3.cfg"]
NEGS = {"NEG_worker_GracefulRepliesEarly.cfg": ["Steps"],
        "NEG_worker_ForcedWaits.cfg": ["Steps"]}


def nontrivial(s, run):
    # a stop arrives while connections are in progress
    return any(r.get("do") == "StopWorker" and any(t > 0 for t in r.get("prevTotal", [])) for r in run)


def run(ctx):
    workerflow.run_check(
        ctx, design=DESIGN, edge_cfgs=DESIGN, negs=NEGS, invariants=INV, corpus=["worker_stop.ndjson"],
        thorough_design=THOROUGH, live=["LIVE_worker_stop.cfg"],
        neg_live=[("NEG_worker_IgnoreTimeout.cfg", ["temporal"])], nontrivial=nontrivial,
        rule="worker side: schedules = paths covering every edge of Worker.tla's stop configs (0..2 connections queued or in "
             "progress, graceful/forced stop, completions before/after the stop and between the 1 s ticks, timeout 2 ticks) + "
             "NEG counterexamples + corpus (timeouts 1..3 s, 3 connections, second stop, dropped stop handle); executed on the "
             "real ServerWorker under virtual time; TLC judges reply value/time and the drain; non-trivial = stop arrives with "
             "connections in progress")
    from checks import c06e2e
    c06e2e.run(ctx)


def replay(ctx, path):
    import json
    rp = json.load(open(path))["replay"]
    if rp.get("mode") in ("e2e", "joinall"):
        from checks import c06e2e
        c06e2e.replay(ctx, path)
    else:
        workerflow.replay(ctx, path, INV)
