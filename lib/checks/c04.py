"""C04 — dispatch is round-robin over available workers only; availability bits are independent (0..512).
Specs: server/AcceptDispatch.tla (C04_RoundRobin, C04_SaturatedGetsNothingStep) and server/Availability.tla."""
import srvflow

INV = ["T_C04_RoundRobin", "T_C04_RoundRobinMeasured", "T_C04_SaturatedGetsNothing", "T_C04_SkipsOnlyUnavailable", "T_C04_SendOnlyToMarked", "T_C04_BitsTrueWhenCalm", "T_C04_NoImmediateRepeat"]
DESIGN = ["MC_core_quick.cfg", "MC_core_l1.cfg", "MC_core_w3l1.cfg", "MC_core_2l.cfg", "MC_cmd_quick.cfg", "MC_fault_quick.cfg", "MC_fault_rejoin_w3.cfg"]
EDGES = ["MC_core_quick.cfg", "MC_core_l1.cfg", "MC_core_w3l1.cfg", "MC_cmd_quick.cfg", "MC_fault_quick.cfg"]
THOROUGH = ["MC_core_w3.cfg", "MC_core_l3.cfg", "MC_core_w3l3.cfg", "MC_core_w3c7.cfg", "MC_core_l4c9.cfg"]
NEGS = {"NEG_RoundRobinStuck.cfg": ["C04_RoundRobin"], "NEG_NoClearOnLimit.cfg": ["C02_Bound", "Steps"],
        "NEG_JumpToFirstAvailable.cfg": ["Steps"], "NEG_ResendWithoutCheck.cfg": ["Steps"], "NEG_RejoinAtIndex.cfg": ["StepNoRepeat"]}


def nontrivial(s, run):
    w = s["cfg"]["W"]
    dl = run[-1]["st"]["dlog"]
    return w >= 2 and any(all(d[2] for d in dl[k:k + w - 1]) for k in range(0, len(dl) - w + 1))


def run(ctx):
    srvflow.run_check(
        ctx, design=DESIGN, edge_cfgs=EDGES, negs=NEGS, invariants=INV, corpus=["server_core.ndjson", "server_cmd.ndjson", "server_cmd_sat.ndjson", "server_fault.ndjson"],
        thorough_design=THOROUGH, nontrivial=nontrivial, random_flavour=('core', 'fault', 'ready', 'cmd'), random_quick=360,
        rule="schedules as for C02/C03; the dispatch log (connection, target worker, 'rotation undisturbed after this "
             "dispatch' measured at the increment yield point) is checked by TLC: any W consecutive dispatches inside an "
             "undisturbed window hit W distinct workers; non-trivial = the run contains such a window with W >= 2")
    from checks import c04avail
    c04avail.run(ctx)
    import srvload
    srvload.run(ctx)


def replay(ctx, path):
    import json as _j
    if _j.load(open(path))["replay"].get("mode") == "e2e-load":
        import srvload
        return srvload.replay(ctx, path)
    import json
    import vlib
    rp = json.load(open(path))["replay"]
    if rp.get("mode") == "avail":
        vlib.cargo_build(["vsrv"])
        vlib.replay_flow(ctx, path, harness="vsrv", signature=lambda r: "avail:%s" % r.get("ev"),
                         tmodule_by_mode={"avail": ("server/AvailabilityTrace.tla", "Trace_C04_avail.cfg")})
    elif rp.get("mode") == "avail-table":
        from checks import c04avail
        vlib.cargo_build(["vsrv"])
        c04avail.run(ctx)
    else:
        srvflow.replay(ctx, path, INV)
