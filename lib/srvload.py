"""End-to-end load scenarios (real Server through ServerBuilder) shared by the server checks: runs the scenarios of
corpus/e2e_load.ndjson tagged with the property and lets TLC evaluate the property's ServerLoadTrace predicates."""
import json
import os

import vlib

TMOD = "server/ServerLoadTrace.tla"
PREDS = {
    "C01": ["T_C01_ServedOnceRightService", "T_C01_AllServed"],
    "C02": ["T_C02_Bound"],
    "C03": ["T_C03_NoLostWake", "T_C02_Bound"],
    "C04": ["T_C04_EvenSpread", "T_C04_EveryWorkerTakesItsTurn", "T_C02_Bound"],
    "C05": ["T_C05_PauseResume"],
    "C08": ["T_C08_ServiceContinues", "T_C08_Replaced"],
}


def _validate(ctx, scs, tag, preds):
    sfile = os.path.join(ctx.workdir, "%s-scenarios.ndjson" % tag)
    tfile = os.path.join(ctx.workdir, "%s-trace.ndjson" % tag)
    cfgp = os.path.join(ctx.workdir, "%s.cfg" % tag)
    with open(cfgp, "w") as f:
        f.write("SPECIFICATION TSpec\nINVARIANTS %s\nPOSTCONDITION TraceAccepted\nCHECK_DEADLOCK FALSE\n" % " ".join(preds))
    vlib.write_ndjson(sfile, scs)
    r = vlib.run_harness("vsrv", ["e2e-load", "--scenarios", sfile, "--trace", tfile], timeout=600)
    summ = json.loads(r.stdout.strip().splitlines()[-1])
    runs = vlib.split_runs(vlib.read_ndjson(tfile))
    accepted, rejects = vlib.validate_runs(TMOD, cfgp, runs, ctx.workdir, tag=tag, max_rejects=6)
    return summ, runs, accepted, rejects


def run(ctx):
    prop = ctx.prop
    scs = [s for s in vlib.read_ndjson(os.path.join(vlib.ROOT, "corpus", "e2e_load.ndjson")) if prop in s.get("props", [])]
    if not ctx.quick:
        scs = scs + [dict(s, name=s["name"] + "-again") for s in scs]
    if not scs:
        return
    preds = PREDS[prop]
    summ, runs, accepted, rejects = _validate(ctx, scs, "%s-load" % prop.lower(), preds)
    confirmed = []
    for (ri, pos, pred) in rejects:
        # real time: a rejection is repeated before it is believed
        s2, runs2, acc2, rej2 = _validate(ctx, [scs[ri]], "%s-load-retry%d" % (prop.lower(), ri), preds)
        if rej2:
            confirmed.append((ri, runs2[0][min(rej2[0][1], len(runs2[0]) - 1)], rej2[0][2], runs2[0]))
        else:
            vlib.log("load scenario %s: rejection not reproduced on retry (ignored)" % scs[ri].get("name"))
            accepted += 1
    ctx.cov["traces_validated_against_impl"] += accepted
    ctx.cov["evaluations"] += len(scs)
    ctx.cov["distinct_nontrivial"] += len(scs)
    ctx.cov["e2e_load_scenarios"] = len(scs)
    ctx.cov["e2e_load_events"] = summ["steps"]
    ctx.cov["samples"].append({"e2e_load_scenario": scs[0]["name"], "steps": scs[0]["steps"][:12]})
    ctx.cov["rule"] = (ctx.cov.get("rule") or "") + " || end-to-end: %d load scenarios on a real Server built through ServerBuilder (real threads, TCP+UDS), predicates %s" % (len(scs), ", ".join(preds))
    for (ri, rec, pred, run) in confirmed:
        ctx.violation("load:%s:%s" % (pred, rec.get("stepDo") or rec.get("e")),
                      "end-to-end load: predicate %s is false at event %s of scenario %s" % (pred, json.dumps(rec.get("raw")), scs[ri].get("name")),
                      {"mode": "e2e-load", "scenario": scs[ri], "trace": run, "preds": preds})


def replay(ctx, path):
    vlib.cargo_build(["vsrv"])
    rp = json.load(open(path))["replay"]
    summ, runs, accepted, rejects = _validate(ctx, [rp["scenario"]], "load-replay", rp["preds"])
    ctx.cov.update({"evaluations": 1, "distinct_nontrivial": 1, "states": 1, "transitions": 1,
                    "traces_validated_against_impl": accepted, "samples": [runs[0][-1]]})
    for (ri, pos, pred) in rejects:
        rec = runs[ri][min(pos, len(runs[ri]) - 1)]
        ctx.violation("load:%s" % pred, "replay (real time): %s false at %s" % (pred, json.dumps(rec.get("raw"))), rp)
