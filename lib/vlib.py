"""Common machinery for the /verif checks: TLC runner, edge graph / path cover, trace validation,
evidence writer, violation + known-finding reporting.  Python 3 standard library only."""
import hashlib
import json
import os
import random
import re
import shutil
import subprocess
import sys
import time
from collections import defaultdict, deque

ROOT = os.path.dirname(os.path.dirname(os.path.abspath(__file__)))
SPEC = os.path.join(ROOT, "spec")
HARNESS = os.path.join(ROOT, "harness")
OUT = os.path.join(ROOT, "out")
EVID = os.path.join(ROOT, "evidence")
REPO = os.environ.get("VERIF_REPO", "/repo")
TLA_JAR = "/opt/veriftools/tla/tla2tools.jar"


class ToolError(Exception):
    """A tool (TLC, cargo, the harness) failed; never a verdict about a property."""


def log(*a):
    print("[verif]", *a, flush=True)


def ensure_dir(p):
    os.makedirs(p, exist_ok=True)
    return p


# --------------------------------------------------------------------------------------------
# cargo
# --------------------------------------------------------------------------------------------
def cargo_env():
    env = dict(os.environ)
    env["CARGO_NET_OFFLINE"] = "true"
    env.pop("RUSTFLAGS", None)  # .cargo/config.toml of the harness carries the cfg flag
    env.pop("CARGO_TARGET_DIR", None)  # the harness always builds into harness/target
    env.pop("CARGO_BUILD_TARGET_DIR", None)
    return env


def sync_lock():
    """The harness workspace resolves offline from a copy of /repo/Cargo.lock."""
    src = os.path.join(REPO, "Cargo.lock")
    dst = os.path.join(HARNESS, "Cargo.lock")
    if not os.path.exists(dst):
        shutil.copyfile(src, dst)


def cargo_build(packages, timeout=1800):
    """Build harness packages (hooks on) against /repo's current working tree."""
    sync_lock()
    cmd = ["cargo", "build", "--offline", "-q"]
    for p in packages:
        cmd += ["-p", p]
    t0 = time.time()
    r = subprocess.run(cmd, cwd=HARNESS, env=cargo_env(), stdout=subprocess.PIPE,
                       stderr=subprocess.STDOUT, text=True, timeout=timeout)
    if r.returncode != 0:
        sys.stdout.write(r.stdout[-6000:])
        raise ToolError("cargo build failed for %s" % packages)
    log("cargo build %s: %.1fs" % (",".join(packages), time.time() - t0))


def harness_bin(name):
    return os.path.join(HARNESS, "target", "debug", name)


def run_harness(name, args, timeout=900, env=None, check=True):
    e = dict(os.environ)
    if env:
        e.update(env)
    t0 = time.time()
    r = subprocess.run([harness_bin(name)] + [str(a) for a in args], stdout=subprocess.PIPE,
                       stderr=subprocess.PIPE, text=True, timeout=timeout, env=e)
    if check and r.returncode != 0:
        sys.stdout.write(r.stdout[-3000:])
        sys.stdout.write(r.stderr[-3000:])
        raise ToolError("harness %s exited %d" % (name, r.returncode))
    log("harness %s %s: %.1fs" % (name, " ".join(str(a) for a in args[:6]), time.time() - t0))
    return r


# --------------------------------------------------------------------------------------------
# TLC
# --------------------------------------------------------------------------------------------
class TlcResult:
    def __init__(self):
        self.stdout = ""
        self.rc = None
        self.generated = 0
        self.distinct = 0
        self.depth = 0
        self.violated = None      # name of violated invariant / property / "assumption" / "deadlock"
        self.error_lines = []
        self.coverage = {}        # action name -> (distinct, total)
        self.wall = 0.0
        self.ok = False
        self.postcondition_failed = False

    def __repr__(self):
        return "TlcResult(ok=%s violated=%s generated=%d distinct=%d)" % (
            self.ok, self.violated, self.generated, self.distinct)


_COV_RE = re.compile(r"^<(\w+) line \d+, col \d+ to line \d+, col \d+ of module (\w+)>: (\d+):(\d+)")


def run_tlc(module, cfg, *, workers=4, xmx="4g", timeout=600, env=None, simulate=None, depth=None,
            seed=None, coverage=False, tag=None, dfs=False, extra=None, keep_stdout_to=None):
    """Runs TLC on spec file `module` (path relative to SPEC or absolute) with config `cfg`."""
    mod = module if os.path.isabs(module) else os.path.join(SPEC, module)
    cfgp = cfg if os.path.isabs(cfg) else os.path.join(os.path.dirname(mod), cfg)
    tag = tag or (os.path.basename(cfgp).replace(".cfg", "") + "-" + str(os.getpid()))
    meta = ensure_dir(os.path.join(OUT, "tlc", tag))
    jopts = "-Xss1g"
    if dfs:
        jopts += " -Dtlc2.tool.queue.IStateQueue=StateDeque"
    e = dict(os.environ)
    e["JAVA_TOOL_OPTIONS"] = jopts
    if env:
        e.update({k: str(v) for k, v in env.items()})
    e["JAVA_TOOL_OPTIONS"] = jopts + " -Xmx" + xmx
    cmd = ["timeout", str(timeout), "tlc", "-workers", str(workers), "-metadir", meta, "-cleanup",
           "-noGenerateSpecTE", "-config", cfgp]
    if coverage:
        cmd += ["-coverage", "1"]
    if simulate:
        cmd += ["-simulate", simulate]
    if depth:
        cmd += ["-depth", str(depth)]
    if seed is not None:
        cmd += ["-seed", str(seed)]
    if extra:
        cmd += extra
    cmd += [mod]
    t0 = time.time()
    r = subprocess.run(cmd, cwd=meta, env=e, stdout=subprocess.PIPE, stderr=subprocess.STDOUT, text=True)
    res = TlcResult()
    res.wall = time.time() - t0
    res.stdout = r.stdout
    res.rc = r.returncode
    if keep_stdout_to:
        with open(keep_stdout_to, "w") as f:
            f.write(r.stdout)
    shutil.rmtree(meta, ignore_errors=True)
    if r.returncode == 124:
        raise ToolError("TLC timeout after %ss on %s" % (timeout, cfgp))
    for line in r.stdout.splitlines():
        m = re.match(r"^(\d+) states generated, (\d+) distinct states found", line)
        if m:
            res.generated, res.distinct = int(m.group(1)), int(m.group(2))
        m = re.match(r"^The depth of the complete state graph search is (\d+)", line)
        if m:
            res.depth = int(m.group(1))
        m = re.match(r"^Error: Invariant (\w+) is violated", line)
        if m:
            res.violated = m.group(1)
        m = re.match(r"^Error: Action property (\w+) is violated", line)
        if m:
            res.violated = m.group(1)
        m = re.match(r"^Error: Action property line", line)
        if m and not res.violated:
            res.violated = "action_property"
        if re.match(r"^Error: Temporal propert(y|ies) .*violated", line):
            res.violated = res.violated or "temporal"
        if line.startswith("Error: Assumption"):
            res.violated = "assumption"
        if line.startswith("Error: Deadlock reached"):
            res.violated = "deadlock"
        if "Postcondition" in line and ("violated" in line or "false" in line.lower()):
            res.postcondition_failed = True
        if line.startswith("Error:"):
            res.error_lines.append(line)
        m = _COV_RE.match(line)
        if m:
            res.coverage[m.group(1)] = (int(m.group(4)), int(m.group(3)))
    res.ok = (r.returncode == 0 and not res.error_lines)
    return res


def run_apalache(module, *, cinit, init, inv, length, timeout=600, tag="apalache"):
    """apalache-mc check (symbolic, bounded in steps, unbounded in integer constants / variables).
    Returns "ok" | "error" (an invariant violation was found) ; anything else is a ToolError."""
    mod = module if os.path.isabs(module) else os.path.join(SPEC, module)
    out = ensure_dir(os.path.join(OUT, "apalache", "%s-%d" % (tag, os.getpid())))
    cmd = ["timeout", str(timeout), "apalache-mc", "check", "--out-dir=" + out, "--cinit=" + cinit, "--init=" + init,
           "--inv=" + inv, "--length=%d" % length, mod]
    t0 = time.time()
    r = subprocess.run(cmd, cwd=out, stdout=subprocess.PIPE, stderr=subprocess.STDOUT, text=True)
    shutil.rmtree(out, ignore_errors=True)
    txt = r.stdout
    if "The outcome is: NoError" in txt and "EXITCODE: OK" in txt:
        res = "ok"
    elif "The outcome is: Error" in txt and "invariant" in txt:
        res = "error"
    else:
        sys.stdout.write("\n".join(txt.splitlines()[-25:]) + "\n")
        raise ToolError("apalache-mc gave no verdict on %s (%s)" % (module, tag))
    log("Apalache %s cinit=%s init=%s inv=%s length=%d: %s, %.1fs" % (os.path.basename(mod), cinit, init, inv, length, res, time.time() - t0))
    return res


def require_ok(res, what):
    if not res.ok:
        sys.stdout.write("\n".join(res.stdout.splitlines()[-40:]) + "\n")
        raise ToolError("%s: TLC did not finish cleanly (%s)" % (what, res.violated or res.error_lines[:1]))


def sany(module):
    mod = module if os.path.isabs(module) else os.path.join(SPEC, module)
    r = subprocess.run(["tla-sany", mod], cwd=os.path.dirname(mod), stdout=subprocess.PIPE,
                       stderr=subprocess.STDOUT, text=True)
    if r.returncode != 0 or "Semantic errors" in r.stdout or "Fatal errors" in r.stdout or "*** Parse Error" in r.stdout:
        sys.stdout.write(r.stdout[-3000:])
        raise ToolError("SANY rejected %s" % module)


def _unq(s):
    # TLC prints strings with backslash escapes for quote and backslash
    return s.replace('\\"', '"').replace("\\\\", "\\")


def tagged_json(stdout, tag):
    """Yields the JSON payloads of lines `<<"TAG", "json">>` printed with PrintT."""
    pre = '<<"%s", "' % tag
    for line in stdout.splitlines():
        if line.startswith(pre) and line.endswith('">>'):
            yield json.loads(_unq(line[len(pre):-3]))


# --------------------------------------------------------------------------------------------
# edge graph -> init-rooted paths covering every edge
# --------------------------------------------------------------------------------------------
class Graph:
    def __init__(self):
        self.inits = []
        self.succ = defaultdict(list)    # node -> [(edge index)]
        self.edges = []                  # (from, act, to)
        self._seen = set()

    @staticmethod
    def key(v):
        return json.dumps(v, sort_keys=True, separators=(",", ":"))

    def add_init(self, view):
        k = self.key(view)
        if k not in self.inits:
            self.inits.append(k)

    def add_edge(self, frm, act, to):
        f, t = self.key(frm), self.key(to)
        sig = (f, self.key(act), t)
        if sig in self._seen:
            return
        self._seen.add(sig)
        self.succ[f].append(len(self.edges))
        self.edges.append((f, act, t))


def graph_from_tlc(stdout):
    g = Graph()
    for rec in tagged_json(stdout, "INIT"):
        g.add_init(rec["from"])
    for rec in tagged_json(stdout, "EDGE"):
        g.add_edge(rec["from"], rec["act"], rec["to"])
    if not g.inits:
        raise ToolError("edge dump has no INIT record")
    return g


def path_cover(g, rng=None, max_len=None):
    """Greedy init-rooted path cover of all edges reachable from the initial states.
    Returns a list of paths; a path is a list of edge indices."""
    # BFS tree for shortest prefixes
    parent = {}
    order = []
    dq = deque()
    for i in g.inits:
        parent[i] = None
        dq.append(i)
    while dq:
        n = dq.popleft()
        order.append(n)
        for ei in g.succ.get(n, []):
            t = g.edges[ei][2]
            if t not in parent:
                parent[t] = ei
                dq.append(t)

    def prefix(node):
        p = []
        while parent[node] is not None:
            ei = parent[node]
            p.append(ei)
            node = g.edges[ei][0]
        p.reverse()
        return p

    covered = [False] * len(g.edges)
    paths = []
    reachable_edges = [ei for n in order for ei in g.succ.get(n, [])]
    if rng:
        rng.shuffle(reachable_edges)
    for ei in reachable_edges:
        if covered[ei]:
            continue
        p = prefix(g.edges[ei][0]) + [ei]
        for x in p:
            covered[x] = True
        # extend greedily through uncovered successors
        node = g.edges[ei][2]
        while max_len is None or len(p) < max_len:
            nxt = [x for x in g.succ.get(node, []) if not covered[x]]
            if not nxt:
                break
            x = nxt[0] if not rng else rng.choice(nxt)
            covered[x] = True
            p.append(x)
            node = g.edges[x][2]
        paths.append(p)
    return paths, sum(covered), len(reachable_edges)


def paths_to_schedules(g, paths):
    return [[g.edges[ei][1] for ei in p] for p in paths]


# --------------------------------------------------------------------------------------------
# trace validation
# --------------------------------------------------------------------------------------------
def write_ndjson(path, recs):
    with open(path, "w") as f:
        for r in recs:
            f.write(json.dumps(r, separators=(",", ":")) + "\n")


def read_ndjson(path):
    out = []
    with open(path) as f:
        for line in f:
            line = line.strip()
            if line:
                out.append(json.loads(line))
    return out


class TraceVerdict:
    def __init__(self):
        self.accepted = False
        self.matched = 0          # records consumed
        self.total = 0
        self.violated = None      # invariant name if a predicate failed
        self.tlc = None


def validate_trace(module, cfg, trace_path, *, timeout=600, xmx="3g", tag=None, env=None):
    """Runs a *Trace.tla spec over one ndjson file.  The trace spec's POSTCONDITION prints
    <<"TRACE_MATCHED", n, total>>; acceptance = n = total and no invariant violated."""
    e = {"TRACE": trace_path}
    if env:
        e.update(env)
    res = run_tlc(module, cfg, workers=1, xmx=xmx, timeout=timeout, env=e, dfs=True, tag=tag)
    v = TraceVerdict()
    v.tlc = res
    v.violated = res.violated
    m = re.search(r'<<"TRACE_MATCHED", (\d+), (\d+)>>', res.stdout)
    if res.violated:
        # a predicate is false on a recorded state. State 1 is the initial state and state k+1 the one after
        # record k (1-based), so the violating record has 0-based index N-2 = `matched`
        ms = re.findall(r"^State (\d+):", res.stdout, flags=re.M)
        v.matched = max(int(ms[-1]) - 2, 0) if ms else 0
        v.total = -1
    elif m:
        v.matched, v.total = int(m.group(1)), int(m.group(2))
    else:
        sys.stdout.write("\n".join(res.stdout.splitlines()[-30:]) + "\n")
        raise ToolError("trace validation of %s produced no verdict" % trace_path)
    v.accepted = (res.violated is None and v.matched == v.total and v.total >= 0)
    return v


def split_runs(recs):
    """Splits a concatenated trace at records with ev == 'reset' (kept as first record of a run)."""
    runs, cur = [], []
    for r in recs:
        if r.get("ev") == "reset" and cur:
            runs.append(cur)
            cur = []
        cur.append(r)
    if cur:
        runs.append(cur)
    return runs


def validate_runs(module, cfg, runs, workdir, *, max_rejects=5, timeout=600, tag="trace", env=None):
    """Validates a list of runs (each a list of records starting with a reset record) in as few TLC
    invocations as possible.  Returns (accepted_count, rejects) where rejects is a list of
    (run_index, record_index_in_run, violated_predicate_or_None)."""
    ensure_dir(workdir)
    remaining = list(range(len(runs)))
    accepted = 0
    rejects = []
    rounds = 0
    while remaining:
        rounds += 1
        path = os.path.join(workdir, "%s-%d.ndjson" % (tag, rounds))
        flat = []
        bounds = []
        for ri in remaining:
            bounds.append((len(flat), ri))
            flat.extend(runs[ri])
        write_ndjson(path, flat)
        v = validate_trace(module, cfg, path, timeout=timeout, tag="%s-%d-%d" % (tag, os.getpid(), rounds), env=env)
        if v.accepted:
            accepted += len(remaining)
            break
        # find the run containing the first unmatched record (0-based index v.matched)
        bad_pos = min(v.matched, len(flat) - 1)
        idx = 0
        for k, (start, ri) in enumerate(bounds):
            if start <= bad_pos:
                idx = k
        start, bad_run = bounds[idx]
        rejects.append((bad_run, bad_pos - start, v.violated))
        accepted += idx
        remaining = [ri for (_, ri) in bounds[idx + 1:]]
        if len(rejects) >= max_rejects:
            break
    return accepted, rejects


# --------------------------------------------------------------------------------------------
# evidence, violations, known findings
# --------------------------------------------------------------------------------------------
_replay_counter = [0]


def known_findings():
    p = os.path.join(ROOT, "known_findings.json")
    if not os.path.exists(p):
        return []
    with open(p) as f:
        return json.load(f).get("findings", [])


class Check:
    """Per-run context of one property check."""

    def __init__(self, prop, tier, seed):
        self.prop = prop
        self.tier = tier
        self.seed = seed
        self.rng = random.Random(seed)
        self.t0 = time.time()
        self.violations = []
        self.known_hits = []
        self.cov = {"states": 0, "transitions": 0, "traces_validated_against_impl": 0, "samples": [],
                    "evaluations": 0, "distinct_nontrivial": 0, "rule": "", "exhaustive": False,
                    "tlc_runs": [], "neg_configs_rejected": [], "constants": {}}
        self.assumptions = []
        self.workdir = ensure_dir(os.path.join(OUT, prop))

    @property
    def quick(self):
        return self.tier == "quick"

    # --- TLC bookkeeping
    def add_tlc(self, name, res, note=""):
        self.cov["states"] += res.distinct
        self.cov["transitions"] += res.generated
        self.cov["tlc_runs"].append({"cfg": name, "distinct": res.distinct, "generated": res.generated,
                                     "depth": res.depth, "wall_s": round(res.wall, 1), "note": note})

    def model_check(self, module, cfg, *, workers=4, timeout=900, xmx="6g", coverage=False, env=None,
                    keep=None):
        res = run_tlc(module, cfg, workers=workers, timeout=timeout, xmx=xmx, coverage=coverage,
                      env=env, keep_stdout_to=keep, tag="%s-%s" % (self.prop, os.path.basename(cfg)[:-4]))
        log("TLC %s: %s, %d distinct / %d generated, %.1fs" % (
            cfg, "ok" if res.ok else ("VIOLATED " + str(res.violated)), res.distinct, res.generated, res.wall))
        return res

    def expect_neg(self, module, cfg, expected, *, workers=4, timeout=600, env=None):
        """A NEG config (a variant constant set to a wrong design) must be rejected by TLC with one of
        the `expected` predicates; otherwise the predicate is vacuous -> tool error."""
        res = run_tlc(module, cfg, workers=workers, timeout=timeout, env=env,
                      tag="%s-%s" % (self.prop, os.path.basename(cfg)[:-4]))
        exp = expected if isinstance(expected, (list, tuple)) else [expected]
        if res.violated not in exp:
            sys.stdout.write("\n".join(res.stdout.splitlines()[-25:]) + "\n")
            raise ToolError("NEG config %s: expected TLC to report %s violated, got %s" % (cfg, exp, res.violated))
        log("NEG %s: rejected as expected (%s)" % (cfg, res.violated))
        self.cov["neg_configs_rejected"].append({"cfg": os.path.basename(cfg), "violated": res.violated})
        return res

    # --- verdicts
    def violation(self, signature, detail, replay):
        """Record a violation; `signature` is matched against known_findings.json."""
        for kf in known_findings():
            if kf.get("property") == self.prop and kf.get("status") == "known" and kf.get("signature") == signature:
                if signature not in [k[0] for k in self.known_hits]:
                    self.known_hits.append((signature, kf.get("what", detail)))
                return
        _replay_counter[0] += 1
        d = ensure_dir(os.path.join(OUT, "replay"))
        path = os.path.join(d, "%s-%d.json" % (self.prop, _replay_counter[0]))
        with open(path, "w") as f:
            json.dump({"property": self.prop, "signature": signature, "detail": detail, "replay": replay,
                       "seed": self.seed, "tier": self.tier}, f, indent=1)
        self.violations.append((signature, detail, path))

    def finish(self):
        wall = time.time() - self.t0
        ev = {"property_id": self.prop, "tier": self.tier, "seed": self.seed, "level": "model_checking",
              "coverage": self.cov, "assumptions": self.assumptions, "wall_s": round(wall, 1),
              "violations": len(self.violations)}
        if not self.cov["samples"]:
            self.cov["samples"] = ["(none recorded)"]
        ensure_dir(EVID)
        with open(os.path.join(EVID, "%s.json" % self.prop), "w") as f:
            json.dump(ev, f, indent=1)
        for sig, what in self.known_hits:
            print("KNOWN-FINDING: property=%s %s" % (self.prop, what), flush=True)
        if self.violations:
            seen = set()
            for sig, detail, path in self.violations:
                if sig in seen:
                    continue
                seen.add(sig)
                log("violation %s: %s" % (sig, detail))
                try:   # the replay file's content goes to the log too (the file may not survive the sandbox)
                    txt = json.dumps(json.load(open(path)).get("replay"), separators=(",", ":"))
                    log("violation data (%s): %s" % (os.path.basename(path), txt[:12000]))
                except Exception:
                    pass
                print("VIOLATION property=%s replay=%s" % (self.prop, path), flush=True)
            return 1
        log("%s %s: held on everything explored (%.1fs)" % (self.prop, self.tier, wall))
        return 0


def sample(rng, items, k):
    items = list(items)
    if len(items) <= k:
        return items
    return rng.sample(items, k)


# --------------------------------------------------------------------------------------------
# the "edge replay" flow shared by the API-level specs (sequential objects)
# --------------------------------------------------------------------------------------------
def edge_replay_flow(ctx, *, module, cfg, negs, tmodule, tcfg, harness, mode, signature,
                     make_schedule=None, extra_args=None, nontrivial=None, budget=None, tag=None,
                     neg_prefix=None, workers=1, extra_runs=0, tlc_timeout=1200):
    """1. TLC exhaustive on `cfg` (design variants) with the edge dump; NEG configs must be rejected.
       2. init-rooted path cover of every edge -> schedules; the harness replays them on the real code
          and records observations; it also compares with the edge label (spec's result).
       3. TLC validates recorded traces against the trace spec: all runs the harness flagged (first 10)
          and a seeded sample of the others up to an event budget, plus `extra_runs` leading runs the
          harness generated itself (random mode).
       Returns dict with schedules, runs, summary."""
    tag = tag or ctx.prop.lower()
    dump = os.path.join(ctx.workdir, "%s-mc.out" % tag)
    res = ctx.model_check(module, cfg, workers=workers, keep=dump, timeout=tlc_timeout)
    require_ok(res, cfg)
    ctx.add_tlc(cfg, res, "exhaustive, design variants, edge dump")
    for ncfg, exp in (negs or {}).items():
        ctx.expect_neg(module, ncfg, exp)
    g = graph_from_tlc(res.stdout)
    paths, covered, total = path_cover(g, ctx.rng)
    scheds = []
    for p in paths:
        acts = [g.edges[ei][1] for ei in p]
        init_view = json.loads(g.edges[p[0]][0])
        scheds.append(make_schedule(init_view, acts) if make_schedule else acts)
    sfile = os.path.join(ctx.workdir, "%s-schedules.ndjson" % tag)
    write_ndjson(sfile, scheds)
    tfile = os.path.join(ctx.workdir, "%s-trace.ndjson" % tag)
    args = [mode, "--schedules", sfile, "--trace", tfile] + list(extra_args or [])
    r = run_harness(harness, args)
    summ = json.loads(r.stdout.strip().splitlines()[-1])
    runs = split_runs(read_ndjson(tfile))
    rand_runs, sched_runs = runs[:extra_runs], runs[extra_runs:]
    if len(sched_runs) != len(scheds):
        raise ToolError("harness recorded %d runs for %d schedules" % (len(sched_runs), len(scheds)))
    flagged = sorted({m["run"] for m in summ["first_mismatches"]})
    budget = budget or (15000 if ctx.quick else 150000)
    pick, ev = [], 0
    order = list(range(len(sched_runs)))
    ctx.rng.shuffle(order)
    for i in order:
        if i in flagged:
            continue
        if ev + len(sched_runs[i]) > budget:
            break
        pick.append(i)
        ev += len(sched_runs[i])
    to_check = [("sched", i) for i in flagged[:10]] + [("sched", i) for i in pick] + \
               [("rand", i) for i in range(len(rand_runs))]
    rr = [sched_runs[i] if k == "sched" else rand_runs[i] for k, i in to_check]
    accepted, rejects = validate_runs(tmodule, tcfg, rr, ctx.workdir, tag=tag)
    ctx.cov["traces_validated_against_impl"] += accepted
    for (ri, pos, pred) in rejects:
        kind, idx = to_check[ri]
        rec = rr[ri][min(pos, len(rr[ri]) - 1)]
        ctx.violation(signature(rec),
                      "TLC rejects the recorded trace at record %d (%s run): observed %s%s" % (
                          pos, kind, json.dumps(rec), (", predicate " + pred) if pred else ""),
                      {"mode": mode, "kind": kind, "schedule": scheds[idx] if kind == "sched" else None,
                       "trace": rr[ri]})
    for m in summ["first_mismatches"]:
        if m["run"] not in flagged[:10]:
            ctx.violation(signature(m["observed"]), "observed %s, the spec's result is %s" % (
                json.dumps(m["observed"]), json.dumps(m["expected"])),
                {"mode": mode, "schedule": scheds[m["run"]]})
    if summ["mismatches"] and not rejects and not ctx.known_hits:
        raise ToolError("driver flagged %d runs but TLC accepted them: oracle disagreement" % summ["mismatches"])
    nt = sum(1 for s in scheds if nontrivial(s)) if nontrivial else len(scheds)
    ctx.cov["evaluations"] += len(scheds) + len(rand_runs)
    ctx.cov["distinct_nontrivial"] += nt
    ctx.cov.setdefault("model_edges", 0)
    ctx.cov.setdefault("model_edges_replayed_on_impl", 0)
    ctx.cov.setdefault("impl_steps", 0)
    ctx.cov.setdefault("driver_mismatches", 0)
    ctx.cov["model_edges"] += total
    ctx.cov["model_edges_replayed_on_impl"] += covered
    ctx.cov["impl_steps"] += summ["steps"]
    ctx.cov["driver_mismatches"] += summ["mismatches"]
    ctx.cov["exhaustive"] = True
    if scheds:
        ctx.cov["samples"].append({"spec": module, "schedule": scheds[0], "observed_trace": sched_runs[0]})
    return {"schedules": scheds, "sched_runs": sched_runs, "rand_runs": rand_runs, "summary": summ}


def replay_flow(ctx, path, *, harness, tmodule_by_mode, signature):
    rp = json.load(open(path))["replay"]
    mode = rp.get("mode")
    tmodule, tcfg = tmodule_by_mode[mode]
    sfile = os.path.join(ctx.workdir, "replay-sched.ndjson")
    tfile = os.path.join(ctx.workdir, "replay-trace.ndjson")
    if rp.get("schedule") is not None:
        write_ndjson(sfile, [rp["schedule"]])
        run_harness(harness, [mode, "--schedules", sfile, "--trace", tfile])
        runs = split_runs(read_ndjson(tfile))
    else:
        runs = [rp["trace"]]
    accepted, rejects = validate_runs(tmodule, tcfg, runs, ctx.workdir, tag="replay")
    ctx.cov.update({"evaluations": 1, "distinct_nontrivial": 1, "states": 1, "transitions": 1,
                    "traces_validated_against_impl": accepted, "samples": [runs[0][:20]]})
    for (ri, pos, pred) in rejects:
        rec = runs[ri][min(pos, len(runs[ri]) - 1)]
        ctx.violation(signature(rec), "replay rejected at record %d: %s" % (pos, json.dumps(rec)), rp)
