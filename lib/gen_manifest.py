#!/usr/bin/env python3
"""Regenerates /verif/MANIFEST.json from the table below (single source of truth for the interface)."""
import json
import os
import subprocess

ROOT = os.path.dirname(os.path.dirname(os.path.abspath(__file__)))
ALL = ["C%02d" % i for i in range(1, 21)]

# property -> (engine, design_ref, technique, level text, level note)
CLAIMED = {
    "C16": ("local", "5/C16, 4.9",
            "TLA+ spec LocalChannel.tla model-checked exhaustively by TLC (+5 NEG variants that must be rejected); every edge of the state graph replayed on the real channel; recorded traces validated by TLC against LocalChannelTrace.tla",
            "All operation sequences up to the depth bound (6 quick / 8 thorough, <=3 live senders) are enumerated by TLC on the spec; an init-rooted path cover of every model edge is executed on the real Sender/Receiver and the observed results/wake-ups are checked by TLC (strict trace validation, API-level spec) plus seeded random longer sequences.",
            "Trusts TLC, the path-cover script, counting wakers as wake-up observation; bounded depth."),
    "C17": ("local", "5/C17, 4.9",
            "TLA+ specs CounterWaker.tla and LocalWakerSpec.tla model-checked exhaustively by TLC (+5 NEG variants); every edge replayed on the real Counter / LocalWaker; traces validated by TLC (strict)",
            "All sequences up to depth 7 (quick) / 9 (thorough) over get/drop/avail/clone for capacities 0..3 and all register/wake/take sequences up to length 6 with 2 wakers are enumerated by TLC; a path cover of every model edge is executed on the real objects and TLC checks the recorded results, totals and wake-ups.",
            "Trusts TLC, the path-cover script, counting wakers; bounded depth."),
}

NOT_YET = "check not built yet in this round; the specification for it is planned in DESIGN.md section 5"


def main():
    hooks_commits = []
    try:
        out = subprocess.run(["git", "-C", "/repo", "log", "--format=%h %s"], stdout=subprocess.PIPE, text=True).stdout
        hooks_commits = [l.split()[0] for l in out.splitlines() if l.split(" ", 1)[1].startswith("verif-hook:")]
    except Exception:
        pass
    checks = []
    for p in ALL:
        if p not in CLAIMED:
            continue
        eng, ref, tech, text, note = CLAIMED[p]
        checks.append({
            "property_id": p,
            "quick_cmd": "./check %s --tier quick" % p,
            "thorough_cmd": "./check %s --tier thorough" % p,
            "evidence_file": "evidence/%s.json" % p,
            "replay_cmd_template": "./check %s --replay {path}" % p,
            "engine": eng,
            "level_claimed": {"category": "model_checking", "text": text, "design_ref": "DESIGN.md " + ref},
            "level_note": note,
            "technique": tech,
        })
    man = {
        "version": 1,
        "setup_cmd": "./check --setup",
        "hooks": {
            "guard": "actix_net_verif",
            "enable": "RUSTFLAGS --cfg actix_net_verif via /verif/harness/.cargo/config.toml (build.rustflags); harness crates depend on /repo crates by path",
            "baseline_off_cmd": "cd /repo && cargo test --workspace --no-fail-fast --offline",
            "source_commits": hooks_commits,
            "add_only": True,
        },
        "engines": [],
        "checks": checks,
        "notes": "All checks: TLA+ spec + TLC, bound to the code by replaying TLC-derived schedules/vectors into the real crates and validating recorded traces with TLC. Exit 2 = tool error (never a verdict).",
        "not_applicable": [{"property_id": p, "reason": NOT_YET} for p in ALL if p not in CLAIMED],
    }
    with open(os.path.join(ROOT, "MANIFEST.json"), "w") as f:
        json.dump(man, f, indent=1)
    print("MANIFEST.json: %d checks, %d not_applicable" % (len(checks), len(man["not_applicable"])))


if __name__ == "__main__":
    main()
