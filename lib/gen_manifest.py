#!/usr/bin/env python3
"""Regenerates /verif/MANIFEST.json from the table below (single source of truth for the interface)."""
import json
import os
import subprocess

ROOT = os.path.dirname(os.path.dirname(os.path.abspath(__file__)))
ALL = ["C%02d" % i for i in range(1, 21)]

# property -> (engine, design_ref, technique, level text, level note)
CLAIMED = {
    "C16": ("local", "5/C16, 4.9",
            "TLA+ spec LocalChannel.tla model-checked exhaustively by TLC (+5 NEG variants that must be rejected); every edge of the state graph replayed on the real channel; recorded traces validated by TLC against LocalChannelTrace.tla",
            "All operation sequences up to the depth bound (6 quick / 8 thorough, <=3 live senders) are enumerated by TLC on the spec; an init-rooted path cover of every model edge is executed on the real Sender/Receiver and the observed results/wake-ups are checked by TLC (strict trace validation, API-level spec) plus seeded random longer sequences.",
            "Trusts TLC, the path-cover script, counting wakers as wake-up observation; bounded depth."),
    "C17": ("local", "5/C17, 4.9",
            "TLA+ specs CounterWaker.tla and LocalWakerSpec.tla model-checked exhaustively by TLC (+5 NEG variants); every edge replayed on the real Counter / LocalWaker; traces validated by TLC (strict)",
            "All sequences up to depth 7 (quick) / 9 (thorough) over get/drop/avail/clone for capacities 0..3 and all register/wake/take sequences up to length 6 with 2 wakers are enumerated by TLC; a path cover of every model edge is executed on the real objects and TLC checks the recorded results, totals and wake-ups.",
            "Trusts TLC, the path-cover script, counting wakers; bounded depth."),
}

SRV_NOTE = "Trusts TLC, the stepped engine (hooks under cfg actix_net_verif) and its measurements, mio/epoll and Tokio's paused clock; threads are serialized at yield points; small constants."
SRV_TECH = ("TLA+ spec AcceptDispatch.tla (accept thread at shared-access granularity, waker queue, counters, availability bits, "
            "listeners, commands, errors, faults) model-checked exhaustively by TLC with NEG variants; TLC state-graph paths and NEG "
            "counterexamples replayed on the real accept loop through a deterministic stepped driver; TLC evaluates the spec's "
            "property predicates on every observed state (predicate-mode trace validation: the verdict) and checks that the "
            "recorded executions - environment actions, yield points of the accept thread, measured states - are behaviours of "
            "the specification (strict-mode trace validation, AcceptDispatchStrict.tla: the binding; rejections are DRIFT); "
            "end-to-end load scenarios on a real Server judged by TLC (ServerLoadTrace.tla)")
for _p, _ref, _txt in [
    ("C01", "5/C01, 4.1", "Every interleaving of connects, accept micro-steps, worker polls, completions, pause/resume/stop and one fault is explored by TLC for 1..3 workers, 1..2 listeners (TCP+UDS), limits 1..3; the paths are executed on the real Accept/ServerWorker and TLC checks on the measured state that each connection is called exactly once, by the worker it was dispatched to, with its own listener's service, and is never in two places or silently closed. Builder.tla: every ServerBuilder call sequence (multi-address bind, addresses in use, listen, UDS; tokens = positions in the builder's, the accept thread's and the worker's vectors) is model-checked and a sample of the layouts is executed on the real ServerBuilder (clients on every socket, readiness failures, back-pressure, a worker death), the recorded run validated by TLC against the same spec (which call's service answered). Real-thread stress phases end with every connection served. The server is stopped (forced and graceful) while clients wait in the workers' queues behind a pending service: every queued connection is closed and none is served (Builder.tla Stop / C01_QueuedReleasedAtStop)."),
    ("C02", "5/C02, 4.1", "TLC checks queued+in-progress <= limit in every state of the model (incl. between send and counter increment) for limits 1..4 and 1..3 workers; the same predicate is evaluated on every state observed while replaying the model's paths on the real code (measured channel length + live service futures); end-to-end stress phases on real threads with overlapping short connections count the service futures alive at once per worker thread inside the services."),
    ("C03", "5/C03, 4.1", "TLC checks the no-lost-wake-up invariant at every quiescent state and its liveness form under weak fairness; wrong wake rules are rejected (NEG); the model's paths (completions before/after the accept thread recorded the dispatch) are replayed on the real code, the real loop is iterated until its real poll would block (epoll probe; interests left in the waker queue then count as lost) and TLC evaluates the predicate on the measured state; every schedule ends with a probe client per listener that must be dispatched; end-to-end stress phases on real threads (thousands of short connections from 6-12 client threads, optionally with pause/resume toggling) end with every worker usable at once; random schedules mix faults, commands, errors and back-pressure; the predicates that keep the accept thread alive (no panic, no spin) and the listeners live (back-off expiry, earliest deadline) decide C03 as well."),
    ("C04", "5/C04, 4.1, 4.4", "Round-robin over undisturbed windows is an invariant of the model (rejected for a stuck rotation) and is evaluated on the dispatch log of the real accept loop twice: with the rotation state the accept thread itself reports at every increment, and on windows derived from measured loads only (they start at a settled state with every worker in the rotation and below its limit - lemma C04_BitsTrueWhenCalm, checked by TLC incl. faults and commands); fault schedules with a replaced worker in another slot are replayed; the 512 availability bits are checked exhaustively against Availability.tla; the rotation is cyclic and skips unavailable workers only (C04_CyclicStep in the model; on the real loop from the accept thread's bits recorded at every dispatch, three-worker configs); a connection is sent only to a worker whose bit was set at the last turn of the rotation, or to the one in turn when no bit is set (C04_SendOnlyToMarkedStep; measured at the turn yield point; holds with faults). The rotation cursor survives removals and rejoins: two consecutive connections go to the same worker only after a re-route, with fewer than two handles left, or when the rotation stepped over an unavailable worker (T_C04_NoImmediateRepeat; three-worker fault schedules)."),
    ("C05", "5/C05, 4.1", "TLC explores all sequences of pause/resume/stop, fatal and per-connection accept errors, deadline expiries and connects (TCP and UDS listeners); replayed on the real loop with injected accept errors and virtual time; TLC checks no dispatch while paused (also inside the iterations the driver runs while settling), UDS reachability, and that no listener is stranded at quiescence; every schedule ends with a probe (one more client per listener before the final resume must wait, one after resume and after the back-off time must be dispatched); every transition class of the model (action x accept-thread mode) is replayed in the quick tier; right after every iteration the loop's next poll timeout is no later than the earliest pending back-off deadline (measured on the virtual clock, two listeners in back-off). Once the loop has settled it is paused exactly when the last pause/resume command pushed was a pause, however the commands were batched (T_C05_PausedAsCommanded)."),
    ("C08", "5/C08, 4.1", "TLC explores a worker dying at every point of a dispatch/completion history with tear-down orders, late availability notifications and replacement (two faults in thorough/corpus); replayed on the real loop where panics and spins are caught as data; TLC checks no panic, no spin, no availability bit without handle, no duplicate handle, re-routing; commands and a fault in one config (a replacement handled during a pause); Builder.tla layouts on the real ServerBuilder: the dispatch that finds the dead worker is re-routed or dropped only when none is left, the replacement builds one service per socket (worker death is observed, not assumed); no worker index is ever lost (in the rotation, reported to the server, or on its way back in the waker queue); end-to-end: a worker dying exactly at its limit. Builder flow: both workers dead before the next dispatch (both replaced), and a worker dying at its limit inside a readiness check while a client holds a connection on it (its arbiter must go down with it so that the slot is released and the fault is found)."),
]:
    CLAIMED[_p] = ("server", _ref, SRV_TECH, _txt, SRV_NOTE)

CLAIMED["C13"] = ("codec", "5/C13, 4.8",
    "TLA+ FramedRead.tla model-checked by TLC for 3 codecs (+4 NEG variants); every edge replayed on the real Framed; recorded runs validated by TLC (FramedReadTrace: strict = drift, predicate = violation); differential long-stream runs through the cross-checked reference",
    "For the length-prefixed test codec, LinesCodec and BytesCodec, TLC enumerates every input up to length 4 (quick) / 5-6 (thorough) over alphabets containing the delimiters, and every script of read results (all chunkings, Pending, one I/O error, EOF) on a branch-by-branch model of next_item, proving the yielded items equal the whole-stream frames and that an I/O error item comes after every frame completed by the bytes delivered before it. A path cover of every model edge is executed on the real Framed over a scripted AsyncRead, and TLC judges the observed items in predicate mode, with strict mode recording drift. Seeded 20-64 KiB streams with reads up to 9000 bytes are judged by a reference cross-checked against every TLC vector.",
    "Trusts TLC, the path-cover script, the scripted AsyncRead, and (long streams only) the Rust transliteration of WholeStreamFrames which is cross-checked on every TLC schedule.")
CLAIMED["C14"] = ("codec", "5/C14, 4.8",
    "TLA+ FramedWrite.tla model-checked by TLC (+5 NEG variants incl. the e49087f close defect); edge-complete path cover replayed on the real Framed (BytesCodec/LinesCodec encoders); traces validated by TLC against FramedWriteTrace (strict, recorded transport answers as hint)",
    "All interleavings of poll_ready / start_send (sizes straddling 1 KiB and 8 KiB) / poll_flush / poll_close up to depth 5 (quick) / 6 (thorough), with every transport script (partial and full takes, Pending, zero-length write, error; flush/shutdown Ok/Pending/Err), are enumerated by TLC on a counter model of the write half. Every model edge is executed on the real Framed over a scripted AsyncWrite, with results, bytes held (byte-identical prefix) and empty/full compared. TLC strictly validates the recorded traces plus random sequences with arbitrary sizes.",
    "Trusts TLC, the path-cover script, the scripted AsyncWrite with position-dependent payload patterns; bounded depth and size classes.")
CLAIMED["C15"] = ("codec", "5/C15, 4.8",
    "TLA+ LinesCodec.tla/Lines.tla (ASSUME-level enumeration by TLC, +5 NEG variants); TLC-emitted vectors replayed on the real LinesCodec::decode/decode_eof/encode; sampled observations validated by TLC (LinesTrace); seeded random strings via the cross-checked Rust reference",
    "Exhaustive over the stated domain: TLC evaluates, for every byte string of length <= 5 (quick) / <= 7 (thorough) over {a, CR, LF, C3, A9, FF}, that the transcription of decode/decode_eof equals an independent reference splitter, and the encode / round-trip law for every tuple of <= 3 valid strings. Every one of these vectors is executed on the real LinesCodec and compared, observed outputs are re-validated by TLC, and random longer strings go through the cross-checked reference.",
    "Trusts TLC; UTF-8 is modelled on the 6-byte alphabet only; random longer strings are judged by the Rust transliteration of the reference (cross-checked on every vector).")

CLAIMED["C20"] = ("bytestring", "5/C20, 4.11",
    "explicit TLA+ spec (Utf8.tla) + TLC exhaustive vector generation + conformance replay on bytestring (vbytestring) + TLC predicate-mode validation of recorded observations (Utf8Trace.tla)",
    "TLC enumerates every byte string of length <= 4 (quick) / <= 5 (thorough) over a 17/19-byte alphabet touching every row and limit of Unicode Table 3-7, proves the table DFA equal to the scalar-value/shortest-form definition at every state (5 mis-transcription NEG configs rejected), and every vector is executed on the real ByteString through all constructors, split_at at every index and slice_ref over every sub-slice; observations are judged by TLC (C20_ObservedAgrees). str parity of Display/Hash/Ord/String conversion is differential against std.",
    "Trusts TLC and the vector plumbing; str-parity clauses (Display/Hash/Ord/conversion) use std as oracle (differential); strings longer than 5 bytes are not enumerated.")
CLAIMED["C19"] = ("connect", "5/C19, 4.10",
    "explicit TLA+ spec (Connect.tla) + TLC exhaustive vector generation + conformance replay on actix-tls connect services (vconnect) + TLC predicate-mode validation of recorded calls (ConnectTrace.tla)",
    "TLC checks a mechanism model of ResolverService/TcpConnectorFut/TLS connectors against the declarative property C19_Holds for every input vector (address lists 0..4/0..5 x live/refused/unreachable/IPv6, host kinds, ports, pre-set constructors, resolver outcomes, local bind; 2 TLS libraries x 13 names x issuer), 9 wrong-design NEG configs rejected; every vector is executed on the real services against loopback listeners, closed ports, logging resolvers and in-process TLS servers, and every recorded call is judged by TLC with the same predicate. TLS payload integrity is differential.",
    "Trusts TLC, the loopback network stack, rcgen/rustls/openssl for certificate validation; the default resolver is exercised for localhost only; payload echo is differential.")

CLAIMED["C18"] = ("tls", "5/C18, 4.10",
    "TLA+ spec TlsAccept.tla model-checked exhaustively by TLC (+5 NEG variants that must be rejected); every edge of the state graph replayed on the real rustls 0.23 and OpenSSL acceptor services over a gated in-memory duplex under Tokio's paused clock with scripted real TLS clients; all recorded runs plus seeded random walks validated by TLC against TlsAcceptTrace.tla (strict); payload equality checked differentially by the driver",
    "All interleavings of poll_ready (2 wakers), call with handshake script complete@t / fail@t / stall, poll / drop of call futures and clock ticks are enumerated by TLC for limits 1..3, up to 4-5 concurrent calls and timeouts of 2-3 ticks; an init-rooted path cover of every edge of the replayed graphs (3-4 concurrent calls) is executed on both acceptor services with handshake timeouts 0.1 / 1.5 / 5 s in virtual time, and the observed readiness answers, resolution variant and instant (1 ms granularity), wake-ups and number of unresolved calls are compared with the edge labels and validated by TLC; random walks with up to 5 concurrent calls are judged by TLC alone. A third flavour runs a rustls and an OpenSSL acceptor service side by side on one thread (the limit is per thread). The data-intact clause (payloads 0 B..64 KiB both ways after every accepted handshake, plus 0..70 000 bytes over in-memory transports of 1 MiB / 16 KiB / 4 KiB / 1 KiB with reader and writer polled concurrently and nothing written after the flush) is a differential byte comparison by the driver, not a model-based claim.",
    "Trusts TLC, the path-cover script, Tokio's paused clock/timer wheel, counting wakers, rustls/aws-lc-rs and OpenSSL; handshakes in progress are measured as live call futures; bounded constants.")

CLAIMED["C11"] = ("service", "5/C11, 4.7", 'TLA+/TLC explicit-state model checking of a denotational+operational combinator spec (CombTerms.tla, Combinators.tla); TLC-generated vectors replayed on the real crate (manual executor, type-erased scripted leaves); recorded traces judged by TLC in predicate mode and bound in strict mode (CombinatorsTrace.tla); NEG variant configs as vacuity guard',
    "TLC checks exhaustively, for every combinator/factory term of depth <= 2 over scripted leaves (k <= 2 Pending polls, Ok/Err, all requests/configs of a small domain; depth 3 by seeded sampling), that the poll-level operational transcription of actix-service yields exactly the reference composition Eval, that second stages run only after/if the first succeeded, that mappers are applied once to the matching variant, that wrappers are transparent, and that each inner factory is built once with the prescribed config and the first init error wins. Every TLC vector is executed on the real generic combinators, and TLC evaluates the same predicates on recorded runs of the real code.",
    "Trusts TLC and the harness's type-erasing adapter, scripted leaves and manual executor; one request per service instance; Then/pipeline are not public and not modelled.")
CLAIMED["C12"] = ("service", "5/C12, 4.7", 'TLA+/TLC explicit-state model checking of a denotational+operational combinator spec (CombTerms.tla, Combinators.tla); TLC-generated vectors replayed on the real crate (manual executor, type-erased scripted leaves); recorded traces judged by TLC in predicate mode and bound in strict mode (CombinatorsTrace.tla); NEG variant configs as vacuity guard',
    "Same model and vectors as C11: TLC checks exhaustively (depth <= 2, sampled depth 3) that combined readiness is the conjunction of the inner readiness polls, that readiness errors propagate mapped, that a Pending answer implies every still-pending inner service/future was polled with the fresh waker of that poll, that no inner future is polled after completion, that no stage is invoked twice and that Pending is answered only while an inner poll is pending. The same predicates are evaluated by TLC on runs recorded from the real combinators, with waker identity observed via will_wake.",
    "Trusts TLC and the harness executor; readiness scripts are sticky; actual wake-ups are not observed (the property is stated over who holds the current waker).")

CLAIMED["C07"] = ("server", "5/C07, 4.2",
    "TLA+ spec Worker.tla (one action = one poll of the ServerWorker future, transcribed branch by branch) model-checked exhaustively by TLC with NEG variants; state-graph paths replayed on the real ServerWorker built in-thread with scripted services under virtual time; per-poll service logs judged by TLC in predicate mode and bound in strict mode (WorkerTrace.tla)",
    "All readiness scripts (Pending/Ready/Err in every position) of 1..3 services, arrival orders of connections and factory re-creation with pending polls are enumerated by TLC on a transcription of ServerWorker::poll; an edge cover of the model is executed on the real future and TLC checks on the services' own log that a call happens only right after a pass in which every service answered ready, that connections are served in queue order, that only the failing service is re-created, that every failed service IS re-created, and that nothing queued is lost; strict mode additionally shows the real future follows the model poll by poll. End to end through the public API (Builder.tla layouts on the real ServerBuilder): a failed readiness check rebuilds exactly one instance, from that call's own factory; while a service is pending clients wait and are served by their own listener's service afterwards (also when the Pending answer comes in the middle of one worker poll while a client connects: real threads, the sweep held 300 ms). An Available worker with a non-empty queue is owed a poll (Worker.tla `owed`, variant MaxPerPoll/Rewake; measured waker flag; bursts of 70-80 connections).",
    SRV_NOTE)
CLAIMED["C06"] = ("server", "5/C06, 4.2, 4.3",
    "TLA+ specs Worker.tla (worker side) and ServerStop.tla (protocol across command loop, accept thread, workers) model-checked by TLC incl. liveness under fairness and NEG variants; worker-side paths replayed deterministically on the real ServerWorker under virtual time and judged by TLC (WorkerTrace.tla); end-to-end scenarios on a real Server (real threads, sockets, OS signals in a child process) recorded with a global sequence number and judged by TLC (ServerStopTrace.tla)",
    "TLC explores every interleaving of stop commands (handle and signal kinds, repeated), server command-loop steps, accept-thread exit, worker replies, ticks and connection completions (0..3 per worker, 1..2 workers) (the exiting accept thread closes the workers' queues: WorkerQueueClosed) and checks graceful-waits, no connection torn down during a graceful stop before the timeout (C06_GracefulLetsFinish; variants WakeAcceptFirst = defect F8 and MidPollIgnoresStop = defect F9 rejected; a stop that arrives while a worker is inside a Service::call is an end-to-end scenario), no-dispatch-after-completion, signal mapping and, under fairness, that every stop future and the Server future resolve; the worker's reply value/time and shutdown drain are checked on the real worker future for every model path in virtual time; real-thread runs (graceful/forced, timeout, second stop, dropped future, paused, SIGTERM/SIGINT/SIGQUIT, the server thread held between the two halves of the stop handler) are judged by TLC on recorded events incl. service futures dropped unfinished. ServerHandles.tla: the server's own handle vector across worker replacements (Stop is sent through it) - model-checked, observed through hook H8 after every replacement in end-to-end scenarios with worker deaths before the stop; worker threads blocked by a non-yielding handler; the listener must be closed at completion (a client connecting at the instant the stop future resolves is refused); stop racing new connections; stop issued after completion; shutdown_timeout of 2 s / 3 s reached on the real clock; the worker thread stalled across shutdown ticks; the server on a plain Tokio runtime and with system_exit.",
    SRV_NOTE + " End-to-end runs use real time with generous bounds (forced stop must complete within 1.5 s; rejections are re-run before being believed).")

RT_TECH = 'TLA+ design model (spec/rt/ActixRt.tla + RtProps.tla) checked exhaustively with TLC incl. liveness and NEG variants; randomized real-thread driver (harness/rt) records call-interval histories through the public API; TLC evaluates the same property predicates on every prefix of every recorded history (predicate-mode trace validation, spec/rt/ActixRtTrace.tla)'
RT_NOTE = "Trusts TLC, the global-sequence-number trace mutex of the driver, 10 s watchdogs; real-thread interleavings are sampled (narrow races are hit with probability < 1 per run); bounds <= 3 arbiters, <= 4 calls, <= 2 stops in the model."
CLAIMED["C09"] = ("rt", "5/C09, 4.6", RT_TECH,
    "All behaviours of the actix-rt stop protocol model within <= 3 arbiters, <= 4 client calls, <= 2 stops, codes {0,7} satisfy C09 (safety exhaustive, liveness under weak fairness on the smallest config, 9 NEG variants rejected); the same TLA+ predicates hold on every recorded real-thread run (200 quick / 5000 thorough scenarios covering the quantifier's shape space: 0..3 arbiters x {early, dropped, running, busy}, stop from system/arbiter/foreign thread, codes 0/non-zero, one or two stops); not a proof for arbitrary sizes, real-thread interleavings are sampled.",
    RT_NOTE)
CLAIMED["C10"] = ("rt", "5/C10, 4.6", RT_TECH,
    "All behaviours of the arbiter command protocol model within <= 3 arbiters, <= 4 calls (spawn/spawn_fn/stop from up to 3 threads) satisfy C10 (7 NEG variants rejected); the same TLA+ predicates (start order respects send order, at most once, own thread and identities, nothing after stop, spawn false when gone, join after loop end, block_on output) hold on every recorded real-thread run (200 quick / 5000 thorough) with tasks that complete, pend, panic or block.",
    RT_NOTE)

NOT_YET = "check not built yet in this round; the specification for it is planned in DESIGN.md section 5"


def main():
    hooks_commits = []
    try:
        out = subprocess.run(["git", "-C", "/repo", "log", "--format=%h %s"], stdout=subprocess.PIPE, text=True).stdout
        hooks_commits = [l.split()[0] for l in out.splitlines() if l.split(" ", 1)[1].startswith("verif-hook:")]
    except Exception:
        pass
    checks = []
    for p in ALL:
        if p not in CLAIMED:
            continue
        eng, ref, tech, text, note = CLAIMED[p]
        checks.append({
            "property_id": p,
            "quick_cmd": "./check %s --tier quick" % p,
            "thorough_cmd": "./check %s --tier thorough" % p,
            "evidence_file": "evidence/%s.json" % p,
            "replay_cmd_template": "./check %s --replay {path}" % p,
            "engine": eng,
            "level_claimed": {"category": "model_checking", "text": text, "design_ref": "DESIGN.md " + ref},
            "level_note": note,
            "technique": tech,
        })
    man = {
        "version": 1,
        "setup_cmd": "./check --setup",
        "hooks": {
            "guard": "actix_net_verif",
            "enable": "RUSTFLAGS --cfg actix_net_verif via /verif/harness/.cargo/config.toml (build.rustflags); harness crates depend on /repo crates by path",
            "baseline_off_cmd": "cd /repo && cargo test --workspace --no-fail-fast --offline",
            "source_commits": hooks_commits,
            "add_only": True,
        },
        "engines": [],
        "checks": checks,
        "notes": "All checks: TLA+ spec + TLC, bound to the code by replaying TLC-derived schedules/vectors into the real crates and validating recorded traces with TLC. Exit 2 = tool error (never a verdict).",
        "not_applicable": [{"property_id": p, "reason": NOT_YET} for p in ALL if p not in CLAIMED],
    }
    with open(os.path.join(ROOT, "MANIFEST.json"), "w") as f:
        json.dump(man, f, indent=1)
    print("MANIFEST.json: %d checks, %d not_applicable" % (len(checks), len(man["not_applicable"])))


if __name__ == "__main__":
    main()
