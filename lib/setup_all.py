"""./check --setup : build every harness package once (offline) and parse every spec with SANY."""
import glob
import os

import vlib

PACKAGES = ["vlocal", "vcodec", "vservice", "vbytestring", "vrt", "vconnect", "vtls", "vsrv"]


def main():
    vlib.sync_lock()
    vlib.cargo_build(PACKAGES, timeout=3600)
    for tla in sorted(glob.glob(os.path.join(vlib.SPEC, "*", "*.tla"))):
        vlib.sany(tla)
    vlib.log("setup done")
    return 0
