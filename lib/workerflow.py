"""Flow for the ServerWorker future (C07, worker side of C06, shutdown drain of C01): Worker.tla model checking,
TLC paths -> schedules for the in-thread real worker, predicate-mode (verdict) and strict-mode (drift) validation."""
import json
import os

import vlib

MOD = "server/Worker.tla"
TMOD = "server/WorkerTrace.tla"
VARS = ["ReadyCheckOnce", "RestartAll", "DrainCalls", "GracefulRepliesEarly", "IgnoreTimeout", "ForcedWaits", "LifoQueue", "DrainOnlyAtStop", "ErrKeepsPolling"]


def read_consts(cfg):
    out = {}
    for line in open(os.path.join(vlib.SPEC, "server", cfg)):
        line = line.strip()
        for k in ("K", "Timeout"):
            if line.startswith(k + " = "):
                out[k] = int(line.split("=")[1])
    return out


def sim_cfg(consts, uds_second=False):
    ls = ["tcp"] * consts["K"]
    if uds_second and consts["K"] >= 2:
        ls[1] = "uds"
    return {"W": 1, "Limit": 16, "listeners": ls, "shutdown_ms": consts["Timeout"] * 1000}


def path_to_steps(acts):
    steps = []
    for a in acts:
        n = a["n"]
        if n == "PushAnswer":
            steps.append({"do": "PushReady", "i": 0, "t": a["k"] - 1, "a": a["a"]})
        elif n == "PushCreatePending":
            steps.append({"do": "PushCreate", "i": 0, "t": a["k"] - 1, "a": 0})
        elif n == "PushConn":
            steps.append({"do": "Connect", "l": a["k"] - 1})
            steps.append({"do": "Iter"})
        elif n == "PushStop":
            steps.append({"do": "StopWorker", "i": 0, "graceful": bool(a["g"])})
        elif n == "Finish":
            steps.append({"do": "Finish", "c": a["c"] - 1})
        elif n == "Tick":
            steps.append({"do": "Advance", "ms": 1000})
        elif n == "Poll":
            steps.append({"do": "WorkerPoll", "i": 0})
        else:
            raise vlib.ToolError("unknown Worker action %s" % n)
    steps.append({"do": "WorkerPoll", "i": 0})
    return steps


def trace_cfg(path, consts, invariants, strict):
    lines = ["CONSTANTS", "  K = %d" % consts["K"], "  MaxConns = 100000", "  MaxNonReady = 100000",
             "  MaxCreatePend = 100000", "  MaxTicks = 100000", "  MaxStops = 100000", "  Timeout = %d" % consts["Timeout"],
             "  Strict = %s" % ("TRUE" if strict else "FALSE")]
    lines += ["  %s = FALSE" % v for v in VARS]
    lines += ["  MaxPerPoll = 0", "  Rewake = FALSE"]
    lines += ["SPECIFICATION TSpec"]
    if invariants and not strict:
        lines += ["INVARIANTS " + " ".join(invariants)]
    lines += ["POSTCONDITION TraceAccepted", "CHECK_DEADLOCK FALSE"]
    with open(path, "w") as f:
        f.write("\n".join(lines) + "\n")


def replay_and_validate(ctx, scheds, invariants, tag, strict_sample=150):
    sfile = os.path.join(ctx.workdir, "%s-schedules.ndjson" % tag)
    tfile = os.path.join(ctx.workdir, "%s-trace.ndjson" % tag)
    vlib.write_ndjson(sfile, scheds)
    r = vlib.run_harness("vsrv", ["replay", "--schedules", sfile, "--trace", tfile], timeout=1800)
    summ = json.loads(r.stdout.strip().splitlines()[-1])
    ctx.cov.setdefault("impl_steps", 0)
    ctx.cov["impl_steps"] += summ["steps"]
    runs = vlib.split_runs(vlib.read_ndjson(tfile))
    if len(runs) != len(scheds):
        raise vlib.ToolError("harness recorded %d runs for %d schedules" % (len(runs), len(scheds)))
    groups = {}
    for i, s in enumerate(scheds):
        groups.setdefault((len(s["cfg"]["listeners"]), s["cfg"]["shutdown_ms"] // 1000), []).append(i)
    accepted_total, bad, drift, strict_ok = 0, [], [], 0
    for (k, tmo), idxs in groups.items():
        consts = {"K": k, "Timeout": tmo}
        cfgp = os.path.join(ctx.workdir, "%s-wtrace-%d-%d.cfg" % (tag, k, tmo))
        trace_cfg(cfgp, consts, invariants, False)
        accepted, rejects = vlib.validate_runs(TMOD, cfgp, [runs[i] for i in idxs], ctx.workdir,
                                               tag="%s-p%d%d" % (tag, k, tmo), max_rejects=8)
        accepted_total += accepted
        for (ri, pos, pred) in rejects:
            i = idxs[ri]
            bad.append((i, runs[i][min(pos, len(runs[i]) - 1)], pred))
        # strict mode on the model-derived schedules (a sample): rejection = DRIFT, never a verdict
        sidx = [i for i in idxs if scheds[i].get("strict")]
        sidx = vlib.sample(ctx.rng, sidx, strict_sample)
        if sidx:
            cfgs = os.path.join(ctx.workdir, "%s-wstrict-%d-%d.cfg" % (tag, k, tmo))
            trace_cfg(cfgs, consts, [], True)
            acc, rej = vlib.validate_runs(TMOD, cfgs, [runs[i] for i in sidx], ctx.workdir,
                                          tag="%s-s%d%d" % (tag, k, tmo), max_rejects=3)
            strict_ok += acc
            for (ri, pos, pred) in rej:
                i = sidx[ri]
                drift.append((i, runs[i][min(pos, len(runs[i]) - 1)]))
    return accepted_total, bad, runs, strict_ok, drift


def confirm_rejections(ctx, scheds, bad, invariants):
    """A rejected run is executed again, alone, twice; reported only if the same predicate fails in both re-executions
    (see srvflow.confirm_rejections)."""
    out, seen = [], set()
    for (i, rec, pred) in bad:
        if (i, pred) in seen:
            continue
        seen.add((i, pred))
        again = 0
        for k in range(2):
            _a, bad2, _r, _s, _d = replay_and_validate(ctx, [scheds[i]], invariants, "%s-confirm-%d-%d" % (ctx.prop.lower(), i, k), strict_sample=0)
            if any(p2 == pred for (_i, _rec, p2) in bad2):
                again += 1
        if again == 2:
            out.append((i, rec, pred))
        else:
            vlib.log("rejection of predicate %s on schedule %d (%s) reproduced in %d of 2 re-executions: not reported; first record: %s" % (
                pred, i, scheds[i].get("origin"), again, json.dumps(rec, separators=(",", ":"))[:6000]))
            ctx.cov.setdefault("unreproduced_rejections", []).append(
                {"predicate": pred, "origin": scheds[i].get("origin"), "reproduced": again, "record": rec.get("k")})
        if len(out) >= 6:
            break
    return out


def run_check(ctx, *, design, edge_cfgs, negs, invariants, corpus, thorough_design=(), live=(), neg_live=(),
              max_paths_quick=500, max_paths_thorough=8000, nontrivial=None, rule="", tag=None):
    vlib.cargo_build(["vsrv"])
    scheds = []
    total_edges = covered_edges = 0
    for cfg in list(design) + ([] if ctx.quick else list(thorough_design)):
        edges = cfg in edge_cfgs
        keep = os.path.join(ctx.workdir, cfg[:-4] + ".out") if edges else None
        res = ctx.model_check(MOD, cfg, workers=1 if edges else 8, keep=keep, timeout=3000, xmx="8g")
        vlib.require_ok(res, cfg)
        ctx.add_tlc(cfg, res, "exhaustive, design variants" + (", edge dump" if edges else ""))
        if edges:
            g = vlib.graph_from_tlc(res.stdout)
            paths, covered, total = vlib.path_cover(g, ctx.rng)
            mp = max_paths_quick if ctx.quick else max_paths_thorough
            if len(paths) > mp:
                paths = vlib.sample(ctx.rng, paths, mp)
                covered = len({ei for p in paths for ei in p})
            consts = read_consts(cfg)
            for n, p in enumerate(paths):
                acts = [g.edges[ei][1] for ei in p]
                scheds.append({"cfg": sim_cfg(consts, uds_second=(n % 2 == 1)), "steps": path_to_steps(acts),
                               "origin": "edge cover of " + cfg, "strict": True})
            total_edges += total
            covered_edges += covered
    for cfg in live:
        res = ctx.model_check(MOD, cfg, workers=4, timeout=1200)
        vlib.require_ok(res, cfg)
        ctx.add_tlc(cfg, res, "liveness under weak fairness")
    for cfg, exp in list(negs.items()) + list(neg_live):
        out = os.path.join(ctx.workdir, "cex-%s.json" % cfg[:-4])
        if os.path.exists(out):
            os.remove(out)
        res = vlib.run_tlc(MOD, cfg, workers=4, timeout=600, extra=["-dumpTrace", "json", out],
                           tag="%s-cex-%s" % (ctx.prop, cfg[:-4]))
        if res.violated not in exp:
            raise vlib.ToolError("NEG config %s: expected %s violated, TLC reported %s" % (cfg, exp, res.violated))
        vlib.log("NEG %s: rejected as expected (%s)" % (cfg, res.violated))
        ctx.cov["neg_configs_rejected"].append({"cfg": cfg, "violated": res.violated})
        if os.path.exists(out):
            ce = json.load(open(out))["counterexample"]["state"]
            acts = [s[1]["act"] for s in ce[1:]]
            scheds.append({"cfg": sim_cfg(read_consts(cfg)), "steps": path_to_steps(acts),
                           "origin": "counterexample of " + cfg})
    for n in corpus:
        for rec in vlib.read_ndjson(os.path.join(vlib.ROOT, "corpus", n)):
            rec["origin"] = "corpus/" + n
            scheds.append(rec)
    accepted, bad, runs, strict_ok, drift = replay_and_validate(ctx, scheds, invariants, tag or ctx.prop.lower())
    ctx.cov["traces_validated_against_impl"] += accepted
    ctx.cov["strict_mode_runs_accepted"] = ctx.cov.get("strict_mode_runs_accepted", 0) + strict_ok
    ctx.cov["strict_mode_drift"] = ctx.cov.get("strict_mode_drift", 0) + len(drift)
    for (i, rec) in drift[:3]:
        print("DRIFT spec=Worker first-unmatched=%s (schedule from %s)" % (json.dumps(rec)[:300], scheds[i].get("origin")), flush=True)
    bad = confirm_rejections(ctx, scheds, bad, invariants)
    for (i, rec, pred) in bad:
        ctx.violation("%s:%s" % (pred, rec.get("do")),
                      "predicate %s is false on the observation after step %s (%s) of a schedule from %s" % (
                          pred, rec.get("k"), rec.get("do"), scheds[i].get("origin")),
                      {"schedule": {"cfg": scheds[i]["cfg"], "steps": scheds[i]["steps"]}, "predicate": pred,
                       "record": rec, "invariants": invariants})
    nt = sum(1 for k, s in enumerate(scheds) if (nontrivial(s, runs[k]) if nontrivial else True))
    ctx.cov["evaluations"] += len(scheds)
    ctx.cov["distinct_nontrivial"] += nt
    ctx.cov["rule"] = (ctx.cov.get("rule") + " || " if ctx.cov.get("rule") else "") + rule
    ctx.cov["model_edges"] = ctx.cov.get("model_edges", 0) + total_edges
    ctx.cov["model_edges_replayed_on_impl"] = ctx.cov.get("model_edges_replayed_on_impl", 0) + covered_edges
    ctx.cov["exhaustive"] = True
    if scheds:
        ctx.cov["samples"].append({"schedule": scheds[0]["steps"][:30], "cfg": scheds[0]["cfg"],
                                   "observed_events_last_poll": runs[0][-1]["st"]["pe"]})
    ctx.assumptions += ["the worker future is built in-thread from the same parts ServerWorker::start uses and polled by hand "
                        "under Tokio's paused clock; services are scripted; events are logged by the services themselves"]
    return scheds, runs


def replay(ctx, path, invariants):
    vlib.cargo_build(["vsrv"])
    rp = json.load(open(path))["replay"]
    accepted, bad, runs, _, _ = replay_and_validate(ctx, [rp["schedule"]], rp.get("invariants") or invariants, "replay")
    ctx.cov.update({"evaluations": 1, "distinct_nontrivial": 1, "states": 1, "transitions": 1,
                    "traces_validated_against_impl": accepted, "samples": [runs[0][-1]]})
    for (i, rec, pred) in bad:
        ctx.violation("%s:%s" % (pred, rec.get("do")), "replay: predicate %s false after step %s" % (pred, rec.get("k")), rp)
