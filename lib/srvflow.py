"""Shared flow for the actix-server properties (C01-C05, C08): AcceptDispatch.tla model checking, translation of
TLC paths into stepped-driver schedules, replay on the real code, predicate-mode trace validation by TLC."""
import json
import os
import re

import vlib

MOD = "server/AcceptDispatch.tla"
TMOD = "server/AcceptDispatchTrace.tla"
SMOD = "server/AcceptDispatchStrict.tla"
VARIANTS = ["IgnoreUnknownIdx", "UnlinkOnDeregister", "ResumeClearsBackoff", "IncBeforeSend", "NoClearOnLimit", "ResumeSkipsAcceptAll",
            "BackoffNeverReregisters", "RoundRobinStuck", "ConnErrIsFatal", "WakeSkipsAcceptAll", "PauseKeepsRegistered",
            "RejoinPausedNoAvail", "ResetSeparate", "JumpToFirstAvailable", "ReportOnlyIfBitSet", "ResendWithoutCheck",
            "RejoinAtIndex", "DropPausePair", "TrackRepeat"]


def read_cfg_constants(cfg):
    """W, Limit, L, Uds of a generated MC config."""
    out = {}
    for line in open(os.path.join(vlib.SPEC, "server", cfg)):
        line = line.strip()
        for k in ("W", "Limit", "L"):
            if line.startswith(k + " = "):
                out[k] = int(line.split("=")[1])
        if line.startswith("Uds = "):
            inner = line.split("=")[1].strip().strip("{}").strip()
            out["Uds"] = [int(x) for x in inner.split(",") if x.strip()]
    return out


def sim_cfg(consts):
    return {"W": consts["W"], "Limit": consts["Limit"],
            "listeners": ["uds" if (k + 1) in consts["Uds"] else "tcp" for k in range(consts["L"])]}


def env_step(a):
    n = a["n"]
    if n == "Connect":
        return {"do": "Connect", "l": a["l"] - 1}
    if n == "WorkerPoll":
        return {"do": "WorkerPoll", "i": a["i"]}
    if n in ("Finish", "TearDown"):
        return {"do": "Finish", "c": a["c"] - 1}
    if n == "Kill":
        return {"do": "Kill", "i": a["i"]}
    if n == "Replace":
        return {"do": "Replace", "i": a["i"]}
    if n == "Cmd":
        return {"do": "Cmd", "x": a["x"]}
    if n == "InjectErr":
        return {"do": "Inject", "l": a["l"] - 1, "kind": a["x"]}
    if n == "Tick":
        return {"do": "Advance", "ms": 510}
    if n == "BareWake":
        return None
    raise vlib.ToolError("unknown model action %s" % n)


ACCEPT_ACTIONS = {"APoll", "ABatch", "APop", "AReset", "AAcceptSys", "AChoose", "ASend", "AInc", "ATimeout"}


def path_to_steps(acts, quiescent_after=None, epilogue=True):
    """Translates a path of the model (list of act records) into driver steps.  Environment actions that the
    model placed inside an accept-loop iteration are anchored at the yield point of the last shared-memory
    access of the accept thread that precedes them."""
    steps = []
    cur_iter = None
    counts = {}
    last_point = None
    for k, a in enumerate(acts):
        n = a["n"]
        if n in ACCEPT_ACTIONS:
            if n == "APoll":
                cur_iter = {"do": "Iter", "anchored": []}
                steps.append(cur_iter)
                counts = {"accepted": 0, "sent": 0, "inc": 0}
                last_point = None
            elif cur_iter is None:
                pass
            elif n == "AAcceptSys" and a["x"] != "noavail":
                counts["accepted"] += 1
                last_point = ("accepted", counts["accepted"])
            elif n == "ASend" and a["x"] == "ok":
                counts["sent"] += 1
                last_point = ("sent", counts["sent"])
            elif n == "AInc":
                counts["inc"] += 1
                last_point = ("inc", counts["inc"])
            elif n == "ATimeout" or (n == "APop" and a["x"] == "Stop"):
                cur_iter = None
        else:
            st = env_step(a)
            if st is None:
                continue
            if cur_iter is not None and last_point is not None:
                cur_iter["anchored"].append({"at": last_point[0], "nth": last_point[1], "step": st})
            elif cur_iter is not None:
                # before the first shared access of the iteration: equivalent to before the iteration
                steps.insert(len(steps) - 1, st)
            else:
                steps.append(st)
        if quiescent_after and quiescent_after[k] and cur_iter is None:
            steps.append({"do": "Settle"})
    if epilogue:
        steps.append({"do": "Settle"})
    return steps


def count_connects(steps):
    n = 0
    for st in steps:
        if st.get("do") == "Connect":
            n += 1
        for a in st.get("anchored", []) or []:
            if a["step"].get("do") == "Connect":
                n += 1
    return n


def probe_epilogue(sched):
    """Property-level end game appended to every schedule: whatever happened before, once every worker has been replaced
    and polled, every connection has finished, the server has been resumed and the back-off time has passed, ONE MORE
    client per listener must be dispatched (C03/C05/C08 at the final quiescent state: no listener stranded, no wake-up
    lost, service resumed).  All of it is legal environment behaviour in any state (the engine skips a Replace nobody
    asked for; finishing a connection early only makes it finish as soon as it is served)."""
    cfg, steps = sched["cfg"], sched["steps"]
    w, nl = cfg["W"], len(cfg["listeners"])
    nconn = count_connects(steps)
    out = [{"do": "Settle"}]
    # one client per listener BEFORE the resume: if the server is (still) paused they must stay in the backlog
    out += [{"do": "Connect", "l": l} for l in range(nl)] + [{"do": "Settle"}]
    nconn += nl
    if any(st.get("do") == "Kill" or any(a["step"].get("do") == "Kill" for a in st.get("anchored", []) or []) for st in steps):
        out += [{"do": "Replace", "i": i} for i in range(w)] + [{"do": "Settle"}]
    out += [{"do": "WorkerPoll", "i": i} for i in range(w)]
    out += [{"do": "Finish", "c": c} for c in range(nconn)]
    out += [{"do": "Settle"}, {"do": "Cmd", "x": "Resume"}, {"do": "Advance", "ms": 600}, {"do": "Settle"}]
    out += [{"do": "Connect", "l": l} for l in range(nl)]
    out += [{"do": "Settle"}] + [{"do": "WorkerPoll", "i": i} for i in range(w)] + [{"do": "Settle"}]
    return out


def edge_class(g, ei, cache):
    """Transition class of a model edge: the action label together with the accept thread's mode in the source state
    (paused, back-off timers, registrations, availability bits, handles, waker queue head).  A quick-tier sample of the
    edge cover must contain every class at least once, so that rare combinations (a command consumed while a listener is
    in back-off, a notification for a removed handle, ...) are always replayed on the real code."""
    f, act, _t = g.edges[ei]
    m = cache.get(f)
    if m is None:
        sv = json.loads(f)[0]
        wq = sv[20] if len(sv) > 20 else []
        m = json.dumps([sv[1], sv[5], sv[6], sv[7], sv[8], sv[9], sv[11], [x[0] for x in wq][:2]], sort_keys=True)
        cache[f] = m
    return (act.get("n"), act.get("x"), act.get("i"), act.get("l"), m)


def stratified_sample(ctx, g, paths, max_paths):
    """All transition classes first (greedy set cover over the paths), then a seeded random fill."""
    cache = {}
    pclasses = [set(edge_class(g, ei, cache) for ei in p) for p in paths]
    todo = set().union(*pclasses) if pclasses else set()
    nclasses = len(todo)
    order = list(range(len(paths)))
    ctx.rng.shuffle(order)
    chosen = []
    # cheap greedy: repeatedly take the path that covers most uncovered classes among a random window
    remaining = set(order)
    while todo and len(chosen) < max_paths and remaining:
        window = ctx.rng.sample(sorted(remaining), min(len(remaining), 400))
        best = max(window, key=lambda k: len(pclasses[k] & todo))
        if not pclasses[best] & todo:
            # the window has nothing new: scan everything once
            best = max(remaining, key=lambda k: len(pclasses[k] & todo))
            if not pclasses[best] & todo:
                break
        chosen.append(best)
        remaining.discard(best)
        todo -= pclasses[best]
    fill = vlib.sample(ctx.rng, sorted(remaining), max(0, max_paths - len(chosen)))
    ctx.cov["transition_classes"] = ctx.cov.get("transition_classes", 0) + nclasses
    ctx.cov["transition_classes_replayed"] = ctx.cov.get("transition_classes_replayed", 0) + (nclasses - len(todo))
    return [paths[k] for k in chosen + fill]


def schedules_from_graph(ctx, g, consts, max_paths=None):
    paths, covered, total = vlib.path_cover(g, ctx.rng)
    if max_paths and len(paths) > max_paths:
        paths = stratified_sample(ctx, g, paths, max_paths)
        covered = len({ei for p in paths for ei in p})
    scheds = []
    for p in paths:
        acts = [g.edges[ei][1] for ei in p]
        q = [g.edge_q[ei] for ei in p]
        scheds.append({"cfg": sim_cfg(consts), "steps": path_to_steps(acts, q), "model_path": [
            {k: v for k, v in a.items() if v not in (0, "")} for a in acts]})
    return scheds, covered, total


def graph_with_q(stdout):
    g = vlib.Graph()
    g.edge_q = []
    for rec in vlib.tagged_json(stdout, "INIT"):
        g.add_init(rec["from"])
    for rec in vlib.tagged_json(stdout, "EDGE"):
        n = len(g.edges)
        g.add_edge(rec["from"], rec["act"], rec["to"])
        if len(g.edges) > n:
            g.edge_q.append(bool(rec.get("q")))
    if not g.inits:
        raise vlib.ToolError("edge dump has no INIT record")
    return g


def trace_cfg(path, consts, invariants):
    lines = ["CONSTANTS", "  W = %d" % consts["W"], "  Limit = %d" % consts["Limit"], "  L = %d" % consts["L"],
             "  Uds = {%s}" % ",".join(str(x) for x in consts["Uds"]),
             "  MaxConns = 1000", "  MaxFaults = 1000", "  MaxCmds = 1000", "  MaxErrs = 1000", "  MaxBare = 1000",
             "  WakeAt = %d" % (consts["Limit"] + 1)]
    lines += ["  %s = %s" % (v, "TRUE" if v in ("IgnoreUnknownIdx", "ResumeClearsBackoff") else "FALSE") for v in VARIANTS]
    lines += ["SPECIFICATION TSpec", "INVARIANTS " + " ".join(invariants), "POSTCONDITION TraceAccepted",
              "CHECK_DEADLOCK FALSE"]
    with open(path, "w") as f:
        f.write("\n".join(lines) + "\n")


def strict_cfg(path, consts):
    trace_cfg(path, consts, [])
    txt = open(path).read().replace("INVARIANTS \n", "").replace("POSTCONDITION TraceAccepted", "POSTCONDITION TraceAccepted\nCONSTRAINT Unfinished")
    open(path, "w").write(txt)


def strict_modelled(run):
    """The specification keeps ONE dead generation per worker index; a worker that dies again while connections of its
    previous dead generation are still in progress is outside the model.  Steps outside AcceptDispatch.tla's alphabet
    (worker stop messages, readiness scripts: Worker.tla's business) are marked `unsupported` by the driver."""
    last = None
    for e in run:
        if e.get("ev") == "unsupported":
            return False
        if e.get("ev") == "env" and e.get("do") == "Kill" and last is not None:
            i = e["i"]
            if last["alive"][i] and last["oldInprog"][i]:
                return False
        if "st" in e:
            last = e["st"]
    return True


def strict_validate_group(ctx, consts, runs, tag, env=None):
    """One TLC run of AcceptDispatchStrict over the concatenated strict traces of `runs` (same constants).
    Returns (number of runs fully explained, index of the first run that is not, its first unmatched event or None)."""
    cfgp = os.path.join(ctx.workdir, "%s.cfg" % tag)
    strict_cfg(cfgp, consts)
    path = os.path.join(ctx.workdir, "%s.ndjson" % tag)
    flat, bounds = [], []
    for k, r in enumerate(runs):
        bounds.append(len(flat))
        flat.extend(r)
    vlib.write_ndjson(path, flat)
    e = {"TRACE": path, "STRICT_DEBUG": "0"}
    if env:
        e.update(env)
    res = vlib.run_tlc(SMOD, cfgp, workers=1, xmx="4g", timeout=1200, env=e, dfs=True, tag="%s-%d" % (tag, os.getpid()))
    m = re.search(r'<<"STRICT_MATCHED", (\d+), (\d+)>>', res.stdout)
    if not m:
        import sys
        sys.stdout.write("\n".join(res.stdout.splitlines()[-30:]) + "\n")
        raise vlib.ToolError("strict trace validation (%s) produced no verdict" % tag)
    n, total = int(m.group(1)), int(m.group(2))
    if n == total:
        return len(runs), None, None
    idx = max(k for k, b in enumerate(bounds) if b <= n)
    return idx, idx, flat[n]


def strict_validate(ctx, scheds, strict_runs, tag, budget):
    """Strict-mode conformance: is every recorded execution of the real accept loop a behaviour of AcceptDispatch.tla?
    Rejections are DRIFT (reported, never a verdict about a property)."""
    groups, skipped = {}, 0
    order = sorted(range(len(strict_runs)),
                   key=lambda i: (0 if not str(scheds[i].get("origin", "")).startswith("seeded random") else 1, i))
    taken = 0
    for i in order:
        run = strict_runs[i]
        if not strict_modelled(run):
            skipped += 1
            continue
        if budget is not None and taken >= budget:
            break
        r0 = run[0]
        groups.setdefault((r0["W"], r0["Limit"], r0["L"], tuple(r0["uds"])), []).append(i)
        taken += 1
    ok, drift = 0, []
    for key, idxs in groups.items():
        consts = {"W": key[0], "Limit": key[1], "L": key[2], "Uds": list(key[3])}
        gtag = "%s-strict-%d%d%du%s" % (tag, key[0], key[1], key[2], "".join(map(str, key[3])))
        rest = list(idxs)
        for _round in range(4):
            if not rest:
                break
            n_ok, bad, ev = strict_validate_group(ctx, consts, [strict_runs[i] for i in rest], gtag)
            ok += n_ok
            if bad is None:
                break
            drift.append((rest[bad], ev))
            rest = rest[bad + 1:]
    ctx.cov["strict_mode_runs_accepted"] = ctx.cov.get("strict_mode_runs_accepted", 0) + ok
    ctx.cov["strict_mode_drift"] = ctx.cov.get("strict_mode_drift", 0) + len(drift)
    ctx.cov["strict_mode_runs_outside_model"] = ctx.cov.get("strict_mode_runs_outside_model", 0) + skipped
    for (i, ev) in drift[:3]:
        print("DRIFT spec=AcceptDispatch first-unmatched=%s (schedule from %s)" % (
            json.dumps({k: v for k, v in (ev or {}).items() if k != "st"})[:300], scheds[i].get("origin")), flush=True)
    return ok, drift, groups


def strict_selftest(ctx, scheds, strict_runs, groups, tag):
    """Binding vacuity guard: a recorded trace with ONE corrupted field (an availability bit in a measured state) and one
    with a yield point removed must be rejected by the strict specification."""
    for key, idxs in groups.items():
        for i in idxs:
            run = strict_runs[i]
            its = [k for k, e in enumerate(run) if e.get("ev") == "iterend" and e.get("has_st")]
            pts = [k for k, e in enumerate(run) if e.get("ev") == "pt" and e.get("kind") == "sent"]
            if not its or not pts:
                continue
            consts = {"W": key[0], "Limit": key[1], "L": key[2], "Uds": list(key[3])}
            bad1 = json.loads(json.dumps(run))
            bad1[its[-1]]["st"]["avail"][0] = not bad1[its[-1]]["st"]["avail"][0]
            bad2 = [e for k, e in enumerate(run) if k != pts[0]]
            for name, bad in (("flipped availability bit", bad1), ("removed send yield point", bad2)):
                n_ok, b, _ev = strict_validate_group(ctx, consts, [bad], "%s-selftest" % tag)
                if b is None:
                    raise vlib.ToolError("strict trace spec accepted a corrupted trace (%s): the binding is vacuous" % name)
            ctx.cov["strict_selftest"] = "corrupted traces rejected (flipped availability bit; removed send yield point)"
            return
    ctx.cov["strict_selftest"] = "not run (no suitable trace)"


def replay_and_validate(ctx, scheds, invariants, tag, sig_fn=None, strict_budget=0):
    """Runs the schedules on the real code and lets TLC evaluate `invariants` (names in AcceptDispatchTrace)
    on every recorded state.  Returns (#runs accepted, list of (schedule, record, predicate))."""
    if not scheds:
        return 0, []
    sfile = os.path.join(ctx.workdir, "%s-schedules.ndjson" % tag)
    tfile = os.path.join(ctx.workdir, "%s-trace.ndjson" % tag)
    vlib.write_ndjson(sfile, scheds)
    xfile = os.path.join(ctx.workdir, "%s-strict.ndjson" % tag)
    r = vlib.run_harness("vsrv", ["replay", "--schedules", sfile, "--trace", tfile] + (["--strict", xfile] if strict_budget != 0 else []), timeout=1800)
    summ = json.loads(r.stdout.strip().splitlines()[-1])
    ctx.cov.setdefault("impl_steps", 0)
    ctx.cov.setdefault("anchors_missed", 0)
    ctx.cov["impl_steps"] += summ["steps"]
    ctx.cov["anchors_missed"] += summ["anchors_missed"]
    runs = vlib.split_runs(vlib.read_ndjson(tfile))
    if len(runs) != len(scheds):
        raise vlib.ToolError("harness recorded %d runs for %d schedules" % (len(runs), len(scheds)))
    # group by constants
    groups = {}
    for i, run in enumerate(runs):
        r0 = run[0]
        key = (r0["W"], r0["Limit"], r0["L"], tuple(r0["uds"]))
        groups.setdefault(key, []).append(i)
    accepted_total = 0
    bad = []
    for key, idxs in groups.items():
        consts = {"W": key[0], "Limit": key[1], "L": key[2], "Uds": list(key[3])}
        cfgp = os.path.join(ctx.workdir, "%s-trace-%d-%d-%d.cfg" % (tag, key[0], key[1], key[2]))
        trace_cfg(cfgp, consts, invariants)
        accepted, rejects = vlib.validate_runs(TMOD, cfgp, [runs[i] for i in idxs], ctx.workdir,
                                               tag="%s-%d%d%d" % (tag, key[0], key[1], key[2]), max_rejects=8)
        accepted_total += accepted
        for (ri, pos, pred) in rejects:
            i = idxs[ri]
            rec = runs[i][min(pos, len(runs[i]) - 1)]
            bad.append((i, rec, pred))
    if strict_budget != 0:
        sruns = vlib.split_runs(vlib.read_ndjson(xfile))
        if len(sruns) != len(scheds):
            raise vlib.ToolError("harness recorded %d strict runs for %d schedules" % (len(sruns), len(scheds)))
        _ok, _drift, groups = strict_validate(ctx, scheds, sruns, tag, None if strict_budget < 0 else strict_budget)
        if "strict_selftest" not in ctx.cov:
            strict_selftest(ctx, scheds, sruns, groups, tag)
    return accepted_total, bad, runs


def _last_step(run, cond=lambda r: True):
    for k in range(len(run) - 1, 0, -1):
        if run[k].get("ev") == "step" and cond(run[k]):
            return k
    return None


def _corrupt(pred, run, w, limit):
    """Returns a copy of `run` with ONE recorded field falsified so that exactly the clause `pred` talks about is
    contradicted (or None if this run offers no suitable record)."""
    run = json.loads(json.dumps(run))
    nofault = lambda r: not r["st"]["everFaulted"] and r["st"]["running"]
    calm_q = lambda r: r.get("q") and r["st"]["running"] and not r["st"]["paused"] and r["st"]["handles"] and all(
        t == 0 for t in r["st"]["lstTimer"]) and not r["st"]["chan"][r["st"]["handles"][0]] and not r["st"]["inprog"][r["st"]["handles"][0]] and r["st"]["alive"][r["st"]["handles"][0]]
    if pred in ("T_C03_NoLostWake", "T_C05_ListenerLive", "T_C08_ServiceResumes"):
        k = _last_step(run, calm_q)
        if k is None:
            return None
        run[k]["st"]["backlog"][0] = run[k]["st"]["backlog"][0] + [len(run[k]["st"]["listener"]) + 1]
        run[k]["st"]["listener"] = run[k]["st"]["listener"] + [1]
        run[k]["st"]["errq"] = [0 for _ in run[k]["st"]["errq"]]
        return run[:k + 1]
    k = _last_step(run, nofault)
    if k is None:
        return None
    st = run[k]["st"]
    if pred == "T_C02_Bound":
        st["chan"][0] = st["chan"][0] + list(range(900, 900 + limit + 1))
    elif pred == "T_C01_ServedOnce":
        if not st["served"]:
            return None
        st["served"] = st["served"] + [st["served"][0]]
    elif pred == "T_C01_Conservation":
        k = _last_step(run, lambda r: nofault(r) and any(r["st"]["chan"]))
        if k is None:
            return None
        st = run[k]["st"]
        c = [x for ch in st["chan"] for x in ch][0]
        st["backlog"][0] = st["backlog"][0] + [c]
    elif pred == "T_C01_NoSilentDrop":
        k = _last_step(run, lambda r: nofault(r) and any(r["st"]["backlog"]) and r["st"]["wstate"][0] not in ("Shutdown", "Done"))
        if k is None:
            return None
        st = run[k]["st"]
        c = [x for b in st["backlog"] for x in b][0]
        st["closed"] = st["closed"] + [c]
        st["accepted"] = st["accepted"] + [c]
        st["backlog"] = [[x for x in b if x != c] for b in st["backlog"]]
    elif pred in ("T_C04_RoundRobin", "T_C04_RoundRobinMeasured"):
        st["dlog"] = [[n + 1, 0, True, 1, False, 0, True, [False] * w] for n in range(w + 1)]
        if w < 2:
            return None
    elif pred == "T_C04_SaturatedGetsNothing":
        st["dlog"] = st["dlog"] + [[901, 0, False, limit + 1, False, 0, False, []]]
    elif pred == "T_C04_SkipsOnlyUnavailable":
        if w < 2:
            return None
        # the same worker twice in a row although every other worker is marked available
        st["dlog"] = [[n + 1, 0, False, 1, False, 0, False, [True] * w] for n in range(2)]
    elif pred == "T_C04_NoImmediateRepeat":
        if w < 2:
            return None
        st["dlog"] = [[n + 1, 0, False, 1, False, 0, False, [True] * w, True, w, True] for n in range(2)]
    elif pred == "T_C05_PausedNoDispatch":
        run[k]["pausedDispatch"] = True
    elif pred == "T_C05_UdsReachable":
        st["connRefused"] = True
    elif pred == "T_C05_PausedAsCommanded":
        k = _last_step(run, lambda r: r.get("q") and r["st"]["running"] and not r["st"]["wq"] and r.get("lastPR"))
        if k is None:
            return None
        run[k]["st"]["paused"] = not run[k]["st"]["paused"]
        return run[:k + 1]
    elif pred == "T_C05_BackoffExpires":
        k = _last_step(run, lambda r: r.get("q") and r["st"]["running"])
        if k is None:
            return None
        run[k]["st"]["lstTimer"][0] = 1
    elif pred == "T_C08_NoPanic":
        st["panicked"] = True
    elif pred == "T_C08_NoSpin":
        st["spin"] = True
    elif pred == "T_C08_NoGhostBit":
        st["handles"] = [h for h in st["handles"] if h != 0]
        st["avail"][0] = True
    elif pred == "T_C08_NoDupHandles":
        st["handles"] = st["handles"] + st["handles"][:1]
        if not st["handles"]:
            return None
    elif pred == "T_C08_FaultReportedOnce":
        st["faults"] = [0, 0]
    elif pred == "T_C08_Rerouted":
        st["droppedOther"] = [1]
    elif pred == "T_C04_SendOnlyToMarked":
        if not st["dlog"]:
            return None
        st["dlog"][-1][8] = False
    elif pred == "T_C04_BitsTrueWhenCalm":
        k = _last_step(run, lambda r: calm_q(r) and nofault(r) and not r["st"]["wq"] and not r["st"]["cmdq"])
        if k is None:
            return None
        run[k]["st"]["avail"][run[k]["st"]["handles"][0]] = False
    elif pred == "T_C07_QueuedMeansWoken":
        k = _last_step(run, lambda r: nofault(r) and r["st"]["wstate"] and r["st"]["wstate"][0] == "Available" and r["st"]["alive"][0] and r["st"].get("wwoken"))
        if k is None:
            return None
        st = run[k]["st"]
        st["chanLen"][0] = max(1, st["chanLen"][0])
        st["wwoken"][0] = False
    elif pred == "T_C08_NoLostIndex":
        # a worker index that is neither in the rotation nor reported nor on its way back
        if not st["handles"] or not st["running"]:
            return None
        i = st["handles"][0]
        st["handles"] = [h for h in st["handles"] if h != i]
        st["avail"][i] = False
        st["cmdq"] = [c for c in st["cmdq"] if c != i]
        st["wq"] = [q for q in st["wq"] if q != ["WK", i]]
    elif pred == "T_C05_WakesForEarliestDeadline":
        k = _last_step(run, lambda r: r.get("do") == "Iter" and r.get("iterRan") and not r.get("advInIter") and r["st"]["running"] and r["st"].get("lstRemain"))
        if k is None:
            return None
        run[k]["st"]["lstRemain"][0] = 100
        run[k]["st"]["timeoutMs"] = 400
    else:
        return None
    return run[:k + 1]


def predicate_selftest(ctx, runs, invariants):
    """Vacuity guard for the trace predicates themselves: for every predicate that decides this property, one accepted
    recorded run with ONE falsified field must be rejected by TLC with exactly that predicate."""
    done = ctx.cov.setdefault("predicate_selftest", {})
    for pred in invariants:
        if pred in done:
            continue
        for run in runs:
            r0 = run[0]
            bad = _corrupt(pred, run, r0["W"], r0["Limit"])
            if bad is None:
                continue
            consts = {"W": r0["W"], "Limit": r0["Limit"], "L": r0["L"], "Uds": list(r0["uds"])}
            cfgp = os.path.join(ctx.workdir, "selftest-%s.cfg" % pred)
            trace_cfg(cfgp, consts, [pred])
            _acc, rej = vlib.validate_runs(TMOD, cfgp, [bad], ctx.workdir, tag="selftest-%s" % pred, max_rejects=1)
            if not rej or rej[0][2] != pred:
                raise vlib.ToolError("selftest: a recorded run with a falsified field was not rejected by %s (%s)" % (pred, rej))
            done[pred] = "rejected a falsified record"
            break
        else:
            done[pred] = "no suitable run"


def confirm_rejections(ctx, scheds, bad, invariants, tag="confirm"):
    """The stepped driver is deterministic up to the kernel (when a loopback connection becomes visible to the listener
    under load).  A rejected run is executed again, alone, twice; it is reported only if the same predicate fails again in
    BOTH re-executions - a defect of the code under test reproduces, a hiccup of the environment does not.  What was not
    reproduced is recorded in the evidence."""
    out, seen = [], set()
    for (i, rec, pred) in bad:
        if (i, pred) in seen:
            continue
        seen.add((i, pred))
        again = 0
        for k in range(2):
            _acc, bad2, _runs = replay_and_validate(ctx, [scheds[i]], invariants, "%s-%s-%d-%d" % (ctx.prop.lower(), tag, i, k))
            if any(p2 == pred for (_i, _r, p2) in bad2):
                again += 1
        if again == 2:
            out.append((i, rec, pred))
        else:
            vlib.log("rejection of predicate %s on schedule %d (%s) reproduced in %d of 2 re-executions: not reported; first record: %s" % (
                pred, i, scheds[i].get("origin"), again, json.dumps(rec, separators=(",", ":"))[:6000]))
            ctx.cov.setdefault("unreproduced_rejections", []).append(
                {"predicate": pred, "origin": scheds[i].get("origin"), "reproduced": again, "record": rec.get("k")})
        if len(out) >= 6:
            break
    return out


def cex_schedule(ctx, cfg, consts=None):
    """Runs a NEG config, exports TLC's counterexample (-dumpTrace json) and translates it into a driver
    schedule: the design-level counterexample of a wrong variant becomes a regression schedule for the code."""
    out = os.path.join(ctx.workdir, "cex-%s.json" % cfg[:-4])
    if os.path.exists(out):
        os.remove(out)
    res = vlib.run_tlc(MOD, cfg, workers=4, timeout=600, extra=["-dumpTrace", "json", out],
                       tag="%s-cex-%s" % (ctx.prop, cfg[:-4]))
    if not os.path.exists(out):
        return None, res
    ce = json.load(open(out))["counterexample"]["state"]
    acts = [s[1]["act"] for s in ce[1:]]
    consts = consts or read_cfg_constants(cfg)
    return {"cfg": sim_cfg(consts), "steps": path_to_steps(acts), "origin": "counterexample of " + cfg,
            "model_path": [{k: v for k, v in a.items() if v not in (0, "")} for a in acts]}, res


def load_corpus(names):
    out = []
    for n in names:
        p = os.path.join(vlib.ROOT, "corpus", n)
        for rec in vlib.read_ndjson(p):
            rec["origin"] = "corpus/" + n
            out.append(rec)
    return out


def random_schedules(rng, n, flavour, max_steps=40):
    """Seeded random environment schedules for the stepped driver, beyond the model's constants (workers 1..3,
    limits 1..4, TCP/UDS listeners).  Every generated action is a legal environment behaviour whatever the state (the
    engine ignores a Replace nobody asked for; finishing a connection that is not in progress yet only makes it finish
    as soon as it is served), so TLC can judge the recorded run in predicate mode."""
    out = []
    # quick tier: a dozen constant combinations (every combination costs two JVM starts for the trace checks);
    # thorough: all 48 (workers 1..3 x limits 1..4 x listener layouts)
    combos = None
    if n <= 500:
        combos = [(1, 1, ["tcp"]), (1, 2, ["uds"]), (1, 3, ["tcp", "uds"]), (2, 1, ["tcp"]), (2, 2, ["tcp", "uds"]), (2, 2, ["tcp"]),
                  (2, 3, ["uds", "tcp"]), (2, 4, ["tcp"]), (3, 1, ["tcp", "uds"]), (3, 2, ["tcp"]), (3, 3, ["uds"]), (3, 4, ["tcp", "uds"])]
    for k in range(n):
        if combos:
            w, limit, listeners = rng.choice(combos)
            listeners = list(listeners)
        else:
            w = rng.randint(1, 3)
            limit = rng.randint(1, 4)
            listeners = rng.choice([["tcp"], ["tcp", "uds"], ["uds"], ["uds", "tcp"]])
        nl = len(listeners)
        steps, nconn = [], 0

        def env_action():
            nonlocal nconn
            r = rng.random()
            if r < 0.35 or nconn == 0:
                nconn += 1
                return {"do": "Connect", "l": rng.randrange(nl)}
            if r < 0.6:
                return {"do": "WorkerPoll", "i": rng.randrange(w)}
            if r < 0.85:
                return {"do": "Finish", "c": rng.randrange(nconn)}
            if flavour == "fault":
                return rng.choice([{"do": "Kill", "i": rng.randrange(w)}, {"do": "Replace", "i": rng.randrange(w)},
                                   {"do": "Finish", "c": rng.randrange(nconn)}])
            if flavour == "ready":
                # application back-pressure: a service answers Pending (or fails) once; the worker goes Unavailable and back
                return rng.choice([{"do": "PushReady", "i": rng.randrange(w), "t": rng.randrange(nl), "a": rng.choice([0, 0, 2])},
                                   {"do": "WorkerPoll", "i": rng.randrange(w)}, {"do": "WorkerPoll", "i": rng.randrange(w)}])
            if flavour == "cmd":
                return rng.choice([{"do": "Cmd", "x": "Pause"}, {"do": "Cmd", "x": "Resume"}, {"do": "Cmd", "x": "Resume"},
                                   {"do": "Inject", "l": rng.randrange(nl), "kind": rng.choice(["fatal", "conn", "enfile", "reset"])},
                                   {"do": "Advance", "ms": rng.choice([100, 300, 510, 600])}])
            if flavour == "mix":
                # everything at once: faults and replacements, commands, accept errors and back-off time, application
                # back-pressure (interplay of mechanisms the other flavours exercise one at a time)
                return rng.choice([{"do": "Kill", "i": rng.randrange(w)}, {"do": "Replace", "i": rng.randrange(w)},
                                   {"do": "Cmd", "x": "Pause"}, {"do": "Cmd", "x": "Resume"}, {"do": "Cmd", "x": "Resume"},
                                   {"do": "Inject", "l": rng.randrange(nl), "kind": rng.choice(["fatal", "conn", "enfile", "reset"])},
                                   {"do": "Advance", "ms": rng.choice([100, 300, 510, 600])},
                                   {"do": "PushReady", "i": rng.randrange(w), "t": rng.randrange(nl), "a": rng.choice([0, 0, 2])},
                                   {"do": "WorkerPoll", "i": rng.randrange(w)}, {"do": "Finish", "c": rng.randrange(nconn)}])
            return {"do": "WorkerPoll", "i": rng.randrange(w)}

        for _ in range(rng.randint(8, max_steps)):
            r = rng.random()
            if r < 0.3:
                anchored = []
                for _ in range(rng.choice([0, 0, 1, 1, 2])):
                    anchored.append({"at": rng.choice(["accepted", "sent", "inc"]), "nth": rng.randint(1, 2), "step": env_action()})
                steps.append({"do": "Iter", "anchored": anchored})
            elif r < 0.4:
                steps.append({"do": "Settle"})
            else:
                steps.append(env_action())
        if flavour in ("cmd", "mix"):
            steps += [{"do": "Cmd", "x": "Resume"}, {"do": "Advance", "ms": 600}]
        if flavour in ("fault", "mix"):
            steps += [{"do": "Settle"}] + [{"do": "Replace", "i": i} for i in range(w)]
        steps += [{"do": "Settle"}] + [{"do": "WorkerPoll", "i": i} for i in range(w)] + [{"do": "Settle"}]
        out.append({"cfg": {"W": w, "Limit": limit, "listeners": listeners}, "steps": steps,
                    "origin": "seeded random (%s)" % flavour})
    return out


PROP_OF_PRED = lambda pred: pred.split("_")[1] if pred and pred.startswith("T_") else None


def run_check(ctx, *, design, edge_cfgs, negs, invariants, corpus, max_paths_quick=400, max_paths_thorough=6000,
              thorough_design=(), live=(), neg_live=(), nontrivial=None, signature=None, rule="", random_flavour="core",
              random_quick=150, random_thorough=4000, probe=True, strict_quick=300):
    """design: configs checked exhaustively by TLC (must hold); edge_cfgs: subset whose state graph is turned into
    schedules; negs: {cfg: [expected predicates]} (each also yields a counterexample schedule); invariants: the
    T_* predicates of AcceptDispatchTrace that decide this property; corpus: corpus files to replay."""
    vlib.cargo_build(["vsrv"])
    scheds = []
    cfgs = list(design) + ([] if ctx.quick else list(thorough_design))
    total_edges = covered_edges = 0
    for cfg in cfgs:
        edges = cfg in edge_cfgs
        keep = os.path.join(ctx.workdir, cfg[:-4] + ".out") if edges else None
        res = ctx.model_check(MOD, cfg, workers=1 if edges else 14, keep=keep, timeout=3600, xmx="24g")
        vlib.require_ok(res, cfg)
        ctx.add_tlc(cfg, res, "exhaustive, design variants" + (", edge dump" if edges else ""))
        if edges:
            g = graph_with_q(res.stdout)
            consts = read_cfg_constants(cfg)
            s, cov, tot = schedules_from_graph(ctx, g, consts, max_paths_quick if ctx.quick else max_paths_thorough)
            for x in s:
                x["origin"] = "edge cover of " + cfg
            scheds += s
            total_edges += tot
            covered_edges += cov
    for cfg in live:
        res = ctx.model_check(MOD, cfg, workers=4, timeout=1200)
        vlib.require_ok(res, cfg)
        ctx.add_tlc(cfg, res, "liveness under weak fairness (no state constraint)")
    for cfg, exp in list(negs.items()) + list(neg_live):
        s, res = cex_schedule(ctx, cfg)
        expected = exp if isinstance(exp, (list, tuple)) else [exp]
        if res.violated not in expected:
            raise vlib.ToolError("NEG config %s: expected %s violated, TLC reported %s" % (cfg, expected, res.violated))
        vlib.log("NEG %s: rejected as expected (%s)" % (cfg, res.violated))
        ctx.cov["neg_configs_rejected"].append({"cfg": cfg, "violated": res.violated})
        if s:
            scheds.append(s)
    scheds += load_corpus(corpus)
    if random_flavour:
        flavours = [random_flavour] if isinstance(random_flavour, str) else list(random_flavour)
        for fl in flavours:
            scheds += random_schedules(ctx.rng, (random_quick if ctx.quick else random_thorough) // len(flavours), fl)
    if probe:
        for sch in scheds:
            if not sch.get("probed"):
                sch["steps"] = list(sch["steps"]) + probe_epilogue(sch)
                sch["probed"] = True
    accepted, bad, runs = replay_and_validate(ctx, scheds, invariants, ctx.prop.lower(),
                                              strict_budget=(strict_quick if ctx.quick else -1))
    ctx.cov["traces_validated_against_impl"] += accepted
    bad = confirm_rejections(ctx, scheds, bad, invariants)
    if not bad:
        predicate_selftest(ctx, runs, invariants)
    for (i, rec, pred) in bad:
        sig = (signature(rec, pred, scheds[i]) if signature else "%s:%s" % (pred, rec.get("do")))
        ctx.violation(sig, "predicate %s is false on the state observed after step %s (%s) of a schedule from %s" % (
            pred, rec.get("k"), rec.get("do"), scheds[i].get("origin")),
            {"schedule": {"cfg": scheds[i]["cfg"], "steps": scheds[i]["steps"]}, "predicate": pred,
             "record": rec, "invariants": invariants})
    nt = sum(1 for k, s in enumerate(scheds) if (nontrivial(s, runs[k]) if nontrivial else True))
    ctx.cov["evaluations"] += len(scheds)
    ctx.cov["distinct_nontrivial"] += nt
    ctx.cov["rule"] = (ctx.cov.get("rule") + " || " if ctx.cov.get("rule") else "") + rule
    ctx.cov["model_edges"] = ctx.cov.get("model_edges", 0) + total_edges
    ctx.cov["model_edges_replayed_on_impl"] = ctx.cov.get("model_edges_replayed_on_impl", 0) + covered_edges
    ctx.cov["exhaustive"] = True
    ctx.cov.setdefault("schedule_origins", {})
    for s in scheds:
        o = s.get("origin", "?")
        ctx.cov["schedule_origins"][o] = ctx.cov["schedule_origins"].get(o, 0) + 1
    if scheds:
        k = 0
        ctx.cov["samples"].append({"schedule": scheds[k]["steps"][:30], "cfg": scheds[k]["cfg"],
                                   "observed_last_record": runs[k][-1]})
    ctx.assumptions += [
        "stepped driver serializes threads: interleavings are explored at the yield points (after accept(2), after send, "
        "after the counter increment) and at action boundaries; atomics are treated as sequentially consistent",
        "observations are measured (channel lengths, raw counters, availability bits, socket EOF, service-side call log)",
    ]
    return scheds, runs


def replay(ctx, path, invariants):
    vlib.cargo_build(["vsrv"])
    rp = json.load(open(path))["replay"]
    accepted, bad, runs = replay_and_validate(ctx, [rp["schedule"]], rp.get("invariants") or invariants, "replay")
    ctx.cov.update({"evaluations": 1, "distinct_nontrivial": 1, "states": 1, "transitions": 1,
                    "traces_validated_against_impl": accepted, "samples": [runs[0][-1]]})
    for (i, rec, pred) in bad:
        ctx.violation("%s:%s" % (pred, rec.get("do")), "replay: predicate %s false after step %s" % (pred, rec.get("k")), rp)
