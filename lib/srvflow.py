"""Shared flow for the actix-server properties (C01-C05, C08): AcceptDispatch.tla model checking, translation of
TLC paths into stepped-driver schedules, replay on the real code, predicate-mode trace validation by TLC."""
import json
import os

import vlib

MOD = "server/AcceptDispatch.tla"
TMOD = "server/AcceptDispatchTrace.tla"
VARIANTS = ["IgnoreUnknownIdx", "UnlinkOnDeregister", "IncBeforeSend", "NoClearOnLimit", "ResumeSkipsAcceptAll",
            "BackoffNeverReregisters", "RoundRobinStuck", "ConnErrIsFatal", "WakeSkipsAcceptAll", "PauseKeepsRegistered"]


def read_cfg_constants(cfg):
    """W, Limit, L, Uds of a generated MC config."""
    out = {}
    for line in open(os.path.join(vlib.SPEC, "server", cfg)):
        line = line.strip()
        for k in ("W", "Limit", "L"):
            if line.startswith(k + " = "):
                out[k] = int(line.split("=")[1])
        if line.startswith("Uds = "):
            inner = line.split("=")[1].strip().strip("{}").strip()
            out["Uds"] = [int(x) for x in inner.split(",") if x.strip()]
    return out


def sim_cfg(consts):
    return {"W": consts["W"], "Limit": consts["Limit"],
            "listeners": ["uds" if (k + 1) in consts["Uds"] else "tcp" for k in range(consts["L"])]}


def env_step(a):
    n = a["n"]
    if n == "Connect":
        return {"do": "Connect", "l": a["l"] - 1}
    if n == "WorkerPoll":
        return {"do": "WorkerPoll", "i": a["i"]}
    if n in ("Finish", "TearDown"):
        return {"do": "Finish", "c": a["c"] - 1}
    if n == "Kill":
        return {"do": "Kill", "i": a["i"]}
    if n == "Replace":
        return {"do": "Replace", "i": a["i"]}
    if n == "Cmd":
        return {"do": "Cmd", "x": a["x"]}
    if n == "InjectErr":
        return {"do": "Inject", "l": a["l"] - 1, "kind": a["x"]}
    if n == "Tick":
        return {"do": "Advance", "ms": 510}
    if n == "BareWake":
        return None
    raise vlib.ToolError("unknown model action %s" % n)


ACCEPT_ACTIONS = {"APoll", "ABatch", "APop", "AAcceptSys", "AChoose", "ASend", "AInc", "ATimeout"}


def path_to_steps(acts, quiescent_after=None, epilogue=True):
    """Translates a path of the model (list of act records) into driver steps.  Environment actions that the
    model placed inside an accept-loop iteration are anchored at the yield point of the last shared-memory
    access of the accept thread that precedes them."""
    steps = []
    cur_iter = None
    counts = {}
    last_point = None
    for k, a in enumerate(acts):
        n = a["n"]
        if n in ACCEPT_ACTIONS:
            if n == "APoll":
                cur_iter = {"do": "Iter", "anchored": []}
                steps.append(cur_iter)
                counts = {"accepted": 0, "sent": 0, "inc": 0}
                last_point = None
            elif cur_iter is None:
                pass
            elif n == "AAcceptSys" and a["x"] != "noavail":
                counts["accepted"] += 1
                last_point = ("accepted", counts["accepted"])
            elif n == "ASend" and a["x"] == "ok":
                counts["sent"] += 1
                last_point = ("sent", counts["sent"])
            elif n == "AInc":
                counts["inc"] += 1
                last_point = ("inc", counts["inc"])
            elif n == "ATimeout" or (n == "APop" and a["x"] == "Stop"):
                cur_iter = None
        else:
            st = env_step(a)
            if st is None:
                continue
            if cur_iter is not None and last_point is not None:
                cur_iter["anchored"].append({"at": last_point[0], "nth": last_point[1], "step": st})
            elif cur_iter is not None:
                # before the first shared access of the iteration: equivalent to before the iteration
                steps.insert(len(steps) - 1, st)
            else:
                steps.append(st)
        if quiescent_after and quiescent_after[k] and cur_iter is None:
            steps.append({"do": "Settle"})
    if epilogue:
        steps.append({"do": "Settle"})
    return steps


def schedules_from_graph(ctx, g, consts, max_paths=None):
    paths, covered, total = vlib.path_cover(g, ctx.rng)
    if max_paths and len(paths) > max_paths:
        paths = vlib.sample(ctx.rng, paths, max_paths)
        covered = len({ei for p in paths for ei in p})
    scheds = []
    for p in paths:
        acts = [g.edges[ei][1] for ei in p]
        q = [g.edge_q[ei] for ei in p]
        scheds.append({"cfg": sim_cfg(consts), "steps": path_to_steps(acts, q), "model_path": [
            {k: v for k, v in a.items() if v not in (0, "")} for a in acts]})
    return scheds, covered, total


def graph_with_q(stdout):
    g = vlib.Graph()
    g.edge_q = []
    for rec in vlib.tagged_json(stdout, "INIT"):
        g.add_init(rec["from"])
    for rec in vlib.tagged_json(stdout, "EDGE"):
        n = len(g.edges)
        g.add_edge(rec["from"], rec["act"], rec["to"])
        if len(g.edges) > n:
            g.edge_q.append(bool(rec.get("q")))
    if not g.inits:
        raise vlib.ToolError("edge dump has no INIT record")
    return g


def trace_cfg(path, consts, invariants):
    lines = ["CONSTANTS", "  W = %d" % consts["W"], "  Limit = %d" % consts["Limit"], "  L = %d" % consts["L"],
             "  Uds = {%s}" % ",".join(str(x) for x in consts["Uds"]),
             "  MaxConns = 1000", "  MaxFaults = 1000", "  MaxCmds = 1000", "  MaxErrs = 1000", "  MaxBare = 1000",
             "  WakeAt = %d" % (consts["Limit"] + 1)]
    lines += ["  %s = %s" % (v, "TRUE" if v == "IgnoreUnknownIdx" else "FALSE") for v in VARIANTS]
    lines += ["SPECIFICATION TSpec", "INVARIANTS " + " ".join(invariants), "POSTCONDITION TraceAccepted",
              "CHECK_DEADLOCK FALSE"]
    with open(path, "w") as f:
        f.write("\n".join(lines) + "\n")


def replay_and_validate(ctx, scheds, invariants, tag, sig_fn=None):
    """Runs the schedules on the real code and lets TLC evaluate `invariants` (names in AcceptDispatchTrace)
    on every recorded state.  Returns (#runs accepted, list of (schedule, record, predicate))."""
    if not scheds:
        return 0, []
    sfile = os.path.join(ctx.workdir, "%s-schedules.ndjson" % tag)
    tfile = os.path.join(ctx.workdir, "%s-trace.ndjson" % tag)
    vlib.write_ndjson(sfile, scheds)
    r = vlib.run_harness("vsrv", ["replay", "--schedules", sfile, "--trace", tfile], timeout=1800)
    summ = json.loads(r.stdout.strip().splitlines()[-1])
    ctx.cov.setdefault("impl_steps", 0)
    ctx.cov.setdefault("anchors_missed", 0)
    ctx.cov["impl_steps"] += summ["steps"]
    ctx.cov["anchors_missed"] += summ["anchors_missed"]
    runs = vlib.split_runs(vlib.read_ndjson(tfile))
    if len(runs) != len(scheds):
        raise vlib.ToolError("harness recorded %d runs for %d schedules" % (len(runs), len(scheds)))
    # group by constants
    groups = {}
    for i, run in enumerate(runs):
        r0 = run[0]
        key = (r0["W"], r0["Limit"], r0["L"], tuple(r0["uds"]))
        groups.setdefault(key, []).append(i)
    accepted_total = 0
    bad = []
    for key, idxs in groups.items():
        consts = {"W": key[0], "Limit": key[1], "L": key[2], "Uds": list(key[3])}
        cfgp = os.path.join(ctx.workdir, "%s-trace-%d-%d-%d.cfg" % (tag, key[0], key[1], key[2]))
        trace_cfg(cfgp, consts, invariants)
        accepted, rejects = vlib.validate_runs(TMOD, cfgp, [runs[i] for i in idxs], ctx.workdir,
                                               tag="%s-%d%d%d" % (tag, key[0], key[1], key[2]), max_rejects=8)
        accepted_total += accepted
        for (ri, pos, pred) in rejects:
            i = idxs[ri]
            rec = runs[i][min(pos, len(runs[i]) - 1)]
            bad.append((i, rec, pred))
    return accepted_total, bad, runs
