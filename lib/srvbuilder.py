"""ServerBuilder wiring (spec/server/Builder.tla): TLC checks the token / factory / socket bookkeeping of builder.rs,
accept.rs and worker.rs for every builder call sequence within the bounds and prints every call sequence ("layout"); the
layouts are executed on the real ServerBuilder (vsrv builder) with a seeded script of events (a client on every socket,
readiness failures, the death of a worker) and the recorded run is validated by TLC against the same spec
(BuilderTrace.tla).  Used by C01 (its listener's service), C07 (rebuilds only the failed service), C08 (replacement)."""
import json
import os

import vlib

MOD = "server/Builder.tla"
TMOD = "server/BuilderTrace.tla"
NEGS = {"NEG_builder_TokenPerCall.cfg": ["B_TokensArePositions", "C01_OwnListenersService"],
        "NEG_builder_TokenForFailed.cfg": ["B_TokensArePositions", "B_NoPanic"],
        "NEG_builder_UdsKeepsToken.cfg": ["B_TokensArePositions", "B_NoPanic"],
        "NEG_builder_ServeWhilePending.cfg": ["C07_NoCallWhilePending"],
        "NEG_builder_StopServesQueued.cfg": ["C01_QueuedReleasedAtStop"]}


def script(rng, lay, with_die=True, both=False, hold=False):
    """events for a running layout: a client on every socket; for some calls a readiness failure followed by a client
    on every socket; the death of a worker followed by a client on every socket (twice: both workers answer)"""
    n = lay["nsockets"]
    ncalls = len(lay["calls"])
    ev = []
    order = list(range(1, n + 1))
    rng.shuffle(order)
    ev += [{"k": "conn", "s": p} for p in order]
    for c in rng.sample(range(1, ncalls + 1), min(ncalls, 2)):
        ev.append({"k": "fail", "c": c})
        rng.shuffle(order)
        ev += [{"k": "conn", "s": p} for p in order]
    # application back-pressure: the services of one (then two) calls answer Pending; clients on two or three sockets
    # must wait and are served, each by its own listener's service, when the last pending call is ready again
    cs = rng.sample(range(1, ncalls + 1), min(ncalls, rng.choice([1, 1, 2])))
    for c in cs:
        ev.append({"k": "pend", "c": c})
    rng.shuffle(order)
    ev += [{"k": "conn", "s": p} for p in order[:3]]
    for c in cs:
        ev.append({"k": "unpend", "c": c})
    ev += [{"k": "conn", "s": p} for p in order[:2]]
    # the same, with the Pending answer arriving in the middle of ONE worker poll (right after a call) and a client
    # connecting during that very readiness sweep
    c = rng.randint(1, ncalls)
    socks_c = [p for p in range(1, n + 1) if sock_call(lay, p) == c]
    if socks_c:
        ev.append({"k": "pendrace", "c": c, "s": rng.choice(socks_c)})
        ev.append({"k": "unpend", "c": c})
        ev += [{"k": "conn", "s": p} for p in order[:2]]
    if with_die:
        ev.append({"k": "diehold" if hold else ("die2" if both else "die"), "s": rng.randint(1, n)})
        for _ in range(2):
            rng.shuffle(order)
            ev += [{"k": "conn", "s": p} for p in order]
        c = rng.randint(1, ncalls)
        ev.append({"k": "fail", "c": c})
        ev += [{"k": "conn", "s": p} for p in order]
    else:
        # the server is stopped (forced or graceful) while two or three clients wait in the workers' queues behind a pending
        # service: they are released, not served (C01)
        ev.append({"k": "pend", "c": rng.randint(1, ncalls)})
        rng.shuffle(order)
        ev += [{"k": "conn", "s": p} for p in order[:3]]
        ev.append({"k": "stop", "graceful": rng.random() < 0.5})
    return ev


def sock_call(lay, p):
    """the builder call (1-based) that bound socket p (1-based) of the layout"""
    k = 0
    for ci, c in enumerate(lay["calls"]):
        for ok in (c["addrs"] if c["kind"] == "bind" else [True]):
            if ok:
                k += 1
                if k == p:
                    return ci + 1
    return 0


def interesting(lay):
    """layouts whose wiring can go wrong: a multi-address bind or an address in use that is not the last call"""
    cs = lay["calls"]
    return any(c["kind"] == "bind" and (len(c["addrs"]) > 1) for c in cs[:-1]) or \
        any(c["kind"] == "bind" and not all(c["addrs"]) for c in cs)


def _validate(ctx, scs, tag):
    sfile = os.path.join(ctx.workdir, "%s-scenarios.ndjson" % tag)
    tfile = os.path.join(ctx.workdir, "%s-trace.ndjson" % tag)
    vlib.write_ndjson(sfile, scs)
    r = vlib.run_harness("vsrv", ["builder", "--scenarios", sfile, "--trace", tfile], timeout=1500)
    summ = json.loads(r.stdout.strip().splitlines()[-1])
    runs = vlib.split_runs(vlib.read_ndjson(tfile))
    accepted, rejects = vlib.validate_runs(TMOD, "Trace_builder.cfg", runs, ctx.workdir, tag=tag, max_rejects=6)
    return summ, runs, accepted, rejects


def selftest(ctx, runs):
    """vacuity guard: an accepted run with ONE falsified answer (the client on a socket of a multi-socket layout is
    answered by another call's service / one instance too many) must be rejected with the matching predicate"""
    import copy
    done = set()
    for run in runs:
        calls = [r for r in run if r.get("ev") == "call"]
        if len(calls) < 2:
            continue
        for kind, pred in (("conn", "T_C01_OwnListenersService"), ("made", "T_B_MadeAsSpec")):
            if kind in done:
                continue
            bad = copy.deepcopy(run)
            idx = [k for k, r in enumerate(bad) if r.get("ev") == kind]
            if not idx:
                continue
            r = bad[idx[-1]]
            if kind == "conn":
                r["by"] = (r["by"] % len(calls)) + 1
            else:
                r["made"][0] += 1
            acc, rej = vlib.validate_runs(TMOD, "Trace_builder.cfg", [bad], ctx.workdir, tag="bld-self-%s" % kind)
            if not rej or rej[0][2] != pred:
                raise vlib.ToolError("builder self-test: a falsified %s record was not rejected by %s (%s)" % (kind, pred, rej))
            done.add(kind)
        if len(done) == 2:
            break
    ctx.cov["builder_selftest"] = sorted(done)


def run(ctx, n_quick=36):
    cfg = "MC_builder_quick.cfg" if ctx.quick else "MC_builder.cfg"
    res = ctx.model_check(MOD, cfg, workers=8, timeout=1200)
    vlib.require_ok(res, cfg)
    ctx.add_tlc(cfg, res, "exhaustive: every builder call sequence (<= 3 calls, <= 3 addresses per bind, some in use) x events")
    for neg, exp in NEGS.items():
        ctx.expect_neg(MOD, neg, exp)
    lays = list(vlib.tagged_json(res.stdout, "LAYOUT"))
    lays.sort(key=lambda l: json.dumps(l, sort_keys=True))
    good = [l for l in lays if interesting(l)]
    rest = [l for l in lays if not interesting(l)]
    if ctx.quick:
        pick = vlib.sample(ctx.rng, good, n_quick * 3 // 4) + vlib.sample(ctx.rng, rest, n_quick // 4)
    else:
        pick = vlib.sample(ctx.rng, good, 450) + vlib.sample(ctx.rng, rest, 150)
    scs = []
    for k, lay in enumerate(pick):
        running = lay["phase"] == "running"
        # the death: k % 4 = 0 an idle worker, 1 both workers, 2 / 3 a worker at its limit with a connection in progress
        scs.append({"name": "b%d" % k, "workers": 1 + (k % 2), "calls": lay["calls"], "limit": 2 if k % 4 >= 2 else 0,
                    "events": script(ctx.rng, lay, with_die=(k % 3 != 2), both=(k % 4 == 1), hold=(k % 4 >= 2)) if running else []})
    summ, runs, accepted, rejects = _validate(ctx, scs, "builder")
    confirmed = []
    for (ri, pos, pred) in rejects:
        s2, runs2, acc2, rej2 = _validate(ctx, [scs[ri]], "builder-retry%d" % ri)
        if rej2 and rej2[0][2]:
            confirmed.append((ri, runs2[0][min(rej2[0][1], len(runs2[0]) - 1)], rej2[0][2], runs2[0]))
        elif rej2:
            print("DRIFT spec=Builder first-unmatched=%s (layout %s)" % (
                json.dumps(runs2[0][min(rej2[0][1], len(runs2[0]) - 1)]), json.dumps(scs[ri]["calls"])), flush=True)
        else:
            vlib.log("builder layout %s: rejection not reproduced on retry (ignored)" % json.dumps(scs[ri]["calls"]))
            accepted += 1
    if not rejects:
        # vacuity guard, meaningful only when every recorded run was accepted as it stands
        selftest(ctx, runs)
    ctx.cov["traces_validated_against_impl"] += accepted
    ctx.cov["evaluations"] += len(scs)
    ctx.cov["distinct_nontrivial"] += sum(1 for s in scs if s["events"] and interesting({"calls": s["calls"]}))
    ctx.cov["builder_layouts_in_model"] = len(lays)
    ctx.cov["builder_layouts_executed"] = len(scs)
    ctx.cov["builder_events"] = summ["steps"]
    ctx.cov["samples"].append({"builder_layout": scs[0]["calls"], "trace": runs[0][1:8]})
    ctx.cov["rule"] = (ctx.cov.get("rule") or "") + (
        " || builder wiring: %d of the %d builder call sequences of Builder.tla (multi-address bind, addresses in use, "
        "listen, UDS; 1-2 workers) executed on the real ServerBuilder with clients on every socket, readiness failures and a "
        "worker death; TLC validates which call's service answered and how many instances each factory built "
        "(BuilderTrace.tla)" % (len(scs), len(lays)))
    for (ri, rec, pred, run_) in confirmed:
        ctx.violation("builder:%s:%s" % (pred, rec.get("ev")),
                      "builder wiring: predicate %s is false at record %s of layout %s" % (pred, json.dumps(rec), json.dumps(scs[ri]["calls"])),
                      {"mode": "builder", "scenario": scs[ri], "trace": run_})


def replay(ctx, path):
    vlib.cargo_build(["vsrv"])
    rp = json.load(open(path))["replay"]
    summ, runs, accepted, rejects = _validate(ctx, [rp["scenario"]], "builder-replay")
    ctx.cov.update({"evaluations": 1, "distinct_nontrivial": 1, "states": 1, "transitions": 1,
                    "traces_validated_against_impl": accepted, "samples": [runs[0][-1]]})
    for (ri, pos, pred) in rejects:
        rec = runs[ri][min(pos, len(runs[ri]) - 1)]
        if pred:
            ctx.violation("builder:%s:%s" % (pred, rec.get("ev")), "replay: %s false at %s" % (pred, json.dumps(rec)), rp)
